/-
  Fx.Lemmas.Selects — C06_match_selects: for every union of a supported specification, the emitted
  discriminant decoder reads the word and the emitted arm list selects exactly the arm the
  specification assigns to it.
-/
import Fx.Lemmas.Roundtrip
namespace Fx

theorem parseIntLit_eq (s : String) : parseIntLit s = parseDecOrHex s := rfl

/-! ### enum members: names and values identify each other -/

theorem find_name_value : ∀ (vs : List Variant), (vs.map (·.name)).Nodup → (vs.map variantNat).Nodup →
    ∀ (l : String) (d : Nat), (∃ v ∈ vs, v.name = l) →
    (((vs.find? fun v => v.name == l).bind variantNat = some d) ↔
     ((vs.find? fun v => variantNat v == some d).map (·.name) = some l)) := by
  intro vs
  induction vs with
  | nil => intro _ _ l d h; obtain ⟨v, hv, _⟩ := h; cases hv
  | cons v rest ih =>
    intro hn hv l d hex
    simp only [List.map_cons, List.nodup_cons] at hn hv
    rw [List.find?_cons, List.find?_cons]
    by_cases h1 : v.name = l
    · have e1 : (v.name == l) = true := by simp [h1]
      simp only [e1]
      by_cases h2 : variantNat v = some d
      · simp [h2, h1]
      · have e2 : (variantNat v == some d) = false := by simp [h2]
        simp only [e2, Option.bind_some]
        constructor
        · intro h; exact absurd h h2
        · intro h
          exfalso
          cases hf : rest.find? (fun v => variantNat v == some d) with
          | none => simp [hf] at h
          | some w =>
            simp only [hf, Option.map_some, Option.some.injEq] at h
            have hw : w ∈ rest := List.mem_of_find?_eq_some hf
            apply hn.1
            rw [h1, ← h]
            exact List.mem_map_of_mem hw
    · have e1 : (v.name == l) = false := by simp [h1]
      simp only [e1]
      have hex' : ∃ w ∈ rest, w.name = l := by
        obtain ⟨w, hw, hwl⟩ := hex
        rcases List.mem_cons.mp hw with e | hw'
        · subst e; exact absurd hwl h1
        · exact ⟨w, hw', hwl⟩
      by_cases h2 : variantNat v = some d
      · have e2 : (variantNat v == some d) = true := by simp [h2]
        simp only [e2, Option.map_some, Option.some.injEq]
        constructor
        · intro h
          exfalso
          cases hf : rest.find? (fun v => v.name == l) with
          | none => simp [hf] at h
          | some w =>
            simp only [hf, Option.bind_some] at h
            have hw : w ∈ rest := List.mem_of_find?_eq_some hf
            apply hv.1
            rw [h2, ← h]
            exact List.mem_map_of_mem hw
        · intro h; exact absurd h h1
      · have e2 : (variantNat v == some d) = false := by simp [h2]
        simp only [e2]
        exact ih hn.2 hv.2 l d hex'

theorem enumMemberValue_eq_variantNat (a : Ast) (v : Variant)
    (h : (match v.value with | .numeric i => decide (0 ≤ i) && decide (i < 2^31) | .str _ => false) = true) :
    enumMemberValue a v = variantNat v := by
  cases hv : v.value with
  | str s => simp [hv] at h
  | numeric i =>
    simp only [hv, Bool.and_eq_true, decide_eq_true_eq] at h
    have : ¬ i < 0 := by omega
    simp [enumMemberValue, variantNat, hv, this]

/-! ### what `Supported` says about the indexes, in usable form -/

theorem bget_none_of_forall_ne {α} {l : List (String × α)} {k : String} (h : ∀ kv ∈ l, kv.1 ≠ k) : bget k l = none := by
  induction l with
  | nil => rfl
  | cons x xs ih =>
    obtain ⟨k', v'⟩ := x
    have hne : k ≠ k' := fun e => h (k', v') List.mem_cons_self e.symm
    simp only [bget, hne, if_false]
    exact ih (fun kv hkv => h kv (List.mem_cons_of_mem _ hkv))

structure SFacts (a : Ast) : Prop where
  keys : ∀ kv ∈ a.types, kv.1 = kv.2.rustName
  tyOk : ∀ n ty, bget n a.types = some ty → typeOk a ty = true
  constNames : ∀ k c, bget k a.constants = some c →
    parseDecOrHex k = none ∧ k ≠ "TRUE" ∧ k ≠ "FALSE" ∧ (∀ t, c = .constValue t → safeName t = t)
  noBoolConst : bget "TRUE" a.constants = none ∧ bget "FALSE" a.constants = none
  enumConsts : ∀ n e, bget n a.types = some (.enum e) → ∀ v ∈ e.variants, bget v.name a.constants = some (.enumValue n v.name)
  constsWF : ∀ k e v, bget k a.constants = some (.enumValue e v) →
    v = k ∧ ∃ en, bget e a.types = some (.enum en) ∧ ∃ var ∈ en.variants, var.name = k
  noC : bget "c" a.constants = none

theorem sfacts_of_supported {a : Ast} (hs : Supported a = true) : SFacts a := by
  obtain ⟨hkeys, htypes, hcn, hec, hwf⟩ := Supported.facts hs
  obtain ⟨hkn, _, _⟩ := keysOk_facts hkeys
  have hcn' : ∀ kv ∈ a.constants, parseDecOrHex kv.1 = none ∧ kv.1 ≠ "TRUE" ∧ kv.1 ≠ "FALSE" ∧
      (∀ t, kv.2 = .constValue t → safeName t = t) := by
    intro kv hkv
    have := (List.all_eq_true.mp hcn) kv hkv
    simp only [Bool.and_eq_true, Option.isNone_iff_eq_none, bne_iff_ne, ne_eq] at this
    refine ⟨this.1.1.1, this.1.1.2, this.1.2, ?_⟩
    intro t ht
    have h4 := this.2
    rw [ht] at h4
    simp only [Bool.and_eq_true, beq_iff_eq] at h4
    exact h4.1
  refine ⟨hkn, ?_, ?_, ?_, ?_, ?_, Supported.noC hs⟩
  · intro n ty hb
    exact (List.all_eq_true.mp htypes) (n, ty) (bget_mem hb)
  · intro k c hb
    exact hcn' (k, c) (bget_mem hb)
  · constructor
    · exact bget_none_of_forall_ne (fun kv hkv => (hcn' kv hkv).2.1)
    · exact bget_none_of_forall_ne (fun kv hkv => (hcn' kv hkv).2.2.1)
  · intro n e hb v hv
    have := (List.all_eq_true.mp hec) (n, .enum e) (bget_mem hb)
    simp only at this
    have := (List.all_eq_true.mp this) v hv
    simpa using this
  · intro k e v hb
    have := (List.all_eq_true.mp hwf) (k, .enumValue e v) (bget_mem hb)
    simp only [Bool.and_eq_true, beq_iff_eq] at this
    refine ⟨this.1, ?_⟩
    have h2 := this.2
    cases hbe : bget e a.types with
    | none => simp [hbe] at h2
    | some ty =>
      cases ty with
      | enum en =>
        simp only [hbe, List.any_eq_true, beq_iff_eq] at h2
        obtain ⟨var, hvar, hname⟩ := h2
        exact ⟨en, rfl, var, hvar, by rw [hname, this.1]⟩
      | struct _ => simp [hbe] at h2
      | union _ => simp [hbe] at h2
      | typedef _ => simp [hbe] at h2

/-! ### one label against the scrutinee -/

/-- the scrutinee of an integer-switched union for the word `d`, compared with a label value `v` -/
theorem scrut_cmp (sv : Val) (d v : Nat) (hd : d < 2^32)
    (h : sv = .u32 d ∨ (sv = .i32 (toSigned 32 d) ∧ v < 2^31)) :
    (match scrutInt sv with | some i => i == (v : Int) | none => false) = (v == d) := by
  rcases h with rfl | ⟨rfl, hv⟩
  · simp only [scrutInt]
    by_cases e : v = d
    · subst e; simp
    · have : ¬ ((d : Int) = (v : Int)) := by omega
      have hne : (v == d) = false := by simp [e]
      rw [hne]
      simpa using this
  · simp only [scrutInt, toSigned]
    by_cases e : v = d
    · subst e
      have : v < 2^(32-1) := by simpa using hv
      simp [this]
    · have hne : (v == d) = false := by simp [e]
      rw [hne]
      split
      · have : ¬ ((d : Int) = (v : Int)) := by omega
        simp [this]
      · rename_i hge
        have h32 : ((2^32 : Nat) : Int) = 4294967296 := by decide
        have : ¬ ((d : Int) - 4294967296 = (v : Int)) := by omega
        simp [h32, this]

theorem lit_num {a : Ast} {t : String} {v : Nat} (hp : parseDecOrHex t = some v) (sv : Val) :
    litMatches a t sv = (match scrutInt sv with | some i => i == (v : Int) | none => false) := by
  simp only [litMatches, parseIntLit_eq, hp]
  cases scrutInt sv <;> rfl

theorem labelValue_num {a : Ast} {l : String} (h1 : l ≠ "TRUE") (h2 : l ≠ "FALSE") {n : Nat} (hp : parseDecOrHex l = some n) :
    labelValue a l = some n := by
  simp [labelValue, h1, h2, hp]

theorem labelValue_const {a : Ast} {l : String} (h1 : l ≠ "TRUE") (h2 : l ≠ "FALSE") (hp : parseDecOrHex l = none) :
    labelValue a l = constLabelValue a l := by
  simp [labelValue, h1, h2, hp]

/-- a label of an integer-switched union: the emitted pattern matches the scrutinee of word `d` iff the label denotes `d` -/
theorem label_int {a : Ast} (F : SFacts a) (swTy : BasicType) (sv : Val) (d : Nat) (hd : d < 2^32) (l : String)
    (hsome : (labelValue a l).isSome = true)
    (hsv : sv = .u32 d ∨ (sv = .i32 (toSigned 32 d) ∧ ∀ v, labelValue a l = some v → v < 2^31))
    (h1 : l ≠ "TRUE") (h2 : l ≠ "FALSE") (hsn : safeName l = l) :
    patMatches a (matcherOf a swTy l) sv = (labelValue a l == some d) := by
  cases hv : labelValue a l with
  | none => simp [hv] at hsome
  | some v =>
    have hsv' : sv = .u32 d ∨ (sv = .i32 (toSigned 32 d) ∧ v < 2^31) := by
      rcases hsv with h | ⟨h, hh⟩
      · exact Or.inl h
      · exact Or.inr ⟨h, hh v hv⟩
    have hcmp := scrut_cmp sv d v hd hsv'
    have hgoal : (some v == some d) = (v == d) := by simp
    rw [hgoal]
    simp only [matcherOf, Ast.getConst]
    cases hc : bget l a.constants with
    | none =>
      cases hp : parseDecOrHex l with
      | none =>
        rw [labelValue_const h1 h2 hp] at hv
        simp [constLabelValue, hc] at hv
      | some n =>
        rw [labelValue_num h1 h2 hp] at hv
        cases hv
        simp only [hsn, patMatches, lit_num hp, hcmp]
    | some c =>
      obtain ⟨hnum, _, _, hsafe⟩ := F.constNames l c hc
      rw [labelValue_const h1 h2 hnum] at hv
      cases c with
      | constValue t =>
        simp only [constLabelValue, hc] at hv
        simp only [hsafe t rfl, patMatches, lit_num hv, hcmp]
      | enumValue e' v' =>
        obtain ⟨hvk, en, hen, var, hvar, hvarn⟩ := F.constsWF l e' v' hc
        subst hvk
        simp only [constLabelValue, hc] at hv
        -- both sides look the member up in the same enum
        have hfm : findEnumMember a v' = (en.variants.find? (·.name == v')).bind (enumMemberValue a) := by
          simp [findEnumMember, hc, hen]
        have hok := F.tyOk e' _ hen
        simp only [typeOk, enumOk, Bool.and_eq_true] at hok
        cases hf : en.variants.find? (·.name == v') with
        | none => simp [hfm, hf] at hv
        | some w =>
          have hw : w ∈ en.variants := List.mem_of_find?_eq_some hf
          have hwn := (List.all_eq_true.mp hok.1.2) w hw
          cases hwv : w.value with
          | str s => simp [hwv] at hwn
          | numeric i =>
            simp only [hwv, Bool.and_eq_true, decide_eq_true_eq] at hwn
            have hi : ¬ i < 0 := by omega
            have hval : i.toNat = v := by
              rw [hfm, hf] at hv
              simpa [enumMemberValue, hwv, hi] using hv
            have hdisc : enumDisc a e' v' = some i := by
              simp [enumDisc, enumOf, Ast.getType, hen, hf, hwv]
            have hiv : (v : Int) = i := by omega
            have hpm : patMatches a (.guard e' v' (switchCastType a swTy).asSafeString) sv =
                (match scrutInt sv with | some j => j == (v : Int) | none => false) := by
              rcases hsv' with rfl | ⟨rfl, _⟩ <;> simp [patMatches, Ast.getConst, F.noC, scrutInt, hdisc, hiv]
            rw [hpm, hcmp]

/-- a label of a bool-switched union (`TRUE` / `FALSE`) -/
theorem label_bool {a : Ast} (F : SFacts a) (swTy : BasicType) (d : Nat) (hd : d ≤ 1) (l : String)
    (hl : l = "TRUE" ∨ l = "FALSE") :
    patMatches a (matcherOf a swTy l) (.bool (d == 1)) = (labelValue a l == some d) := by
  rcases hl with rfl | rfl
  · have hc : bget "TRUE" a.constants = none := F.noBoolConst.1
    have hs : safeName "TRUE" = "true" := by decide
    have hp : parseIntLit "true" = none := by decide
    simp only [matcherOf, Ast.getConst, hc, hs, patMatches, litMatches, hp]
    have hlv : labelValue a "TRUE" = some 1 := by simp [labelValue]
    rw [hlv]
    rcases Nat.le_one_iff_eq_zero_or_eq_one.mp hd with rfl | rfl <;> simp
  · have hc : bget "FALSE" a.constants = none := F.noBoolConst.2
    have hs : safeName "FALSE" = "false" := by decide
    have hp : parseIntLit "false" = none := by decide
    have hne : ("false" == "true") = false := by decide
    simp only [matcherOf, Ast.getConst, hc, hs, patMatches, litMatches, hp, hne]
    have hlv : labelValue a "FALSE" = some 0 := by
      have : ("FALSE" == "TRUE") = false := by decide
      simp [labelValue, this]
    rw [hlv]
    rcases Nat.le_one_iff_eq_zero_or_eq_one.mp hd with rfl | rfl <;> simp

theorem find_congr' {α} {p q : α → Bool} : ∀ (l : List α), (∀ x ∈ l, p x = q x) → l.find? p = l.find? q := by
  intro l
  induction l with
  | nil => intro _; rfl
  | cons x xs ih =>
    intro h
    rw [List.find?_cons, List.find?_cons, h x List.mem_cons_self, ih (fun y hy => h y (List.mem_cons_of_mem _ hy))]

/-- a label of an enum-switched union (a member of that enum) -/
theorem label_enum {a : Ast} (F : SFacts a) (swTy : BasicType) (nm : String) (e : Enum) (hb : bget nm a.types = some (.enum e))
    (d : Nat) (m : String) (hm : enumMemberName a e d = some m) (l : String) (hl : e.variants.any (·.name == l) = true) :
    patMatches a (matcherOf a swTy l) (.cenum e.name m) = (labelValue a l == some d) := by
  have hname : e.name = nm := by
    have := F.keys (nm, .enum e) (bget_mem hb)
    simpa [AstType.rustName] using this.symm
  obtain ⟨w0, hw0, hw0n⟩ := List.any_eq_true.mp hl
  have hw0n' : w0.name = l := by simpa using hw0n
  have hc : bget l a.constants = some (.enumValue nm l) := by
    have := F.enumConsts nm e hb w0 hw0
    rw [hw0n'] at this; exact this
  obtain ⟨hnum, h1, h2, _⟩ := F.constNames l _ hc
  have hok := F.tyOk nm _ hb
  simp only [typeOk, enumOk, Bool.and_eq_true, decide_eq_true_eq] at hok
  obtain ⟨⟨⟨_, hnames⟩, hnumeric⟩, hvals⟩ := hok
  have hmv : ∀ v ∈ e.variants, enumMemberValue a v = variantNat v :=
    fun v hv => enumMemberValue_eq_variantNat a v ((List.all_eq_true.mp hnumeric) v hv)
  -- the label's value is the value of the (unique) member named `l`
  have hlv : labelValue a l = (e.variants.find? (·.name == l)).bind variantNat := by
    rw [labelValue_const h1 h2 hnum]
    simp only [constLabelValue, hc, findEnumMember, hb]
    cases hf : e.variants.find? (·.name == l) with
    | none => rfl
    | some w => simp [hmv w (List.mem_of_find?_eq_some hf)]
  -- the scrutinee's member is the (unique) member with value `d`
  have hmn : (e.variants.find? fun v => variantNat v == some d).map (·.name) = some m := by
    have : (e.variants.find? fun v => enumMemberValue a v == some d) = (e.variants.find? fun v => variantNat v == some d) :=
      find_congr' e.variants (fun v hv => by rw [hmv v hv])
    rw [← this]
    exact hm
  have hiff := find_name_value e.variants hnames hvals l d ⟨w0, hw0, hw0n'⟩
  simp only [matcherOf, Ast.getConst, hc, patMatches, F.noC, hname, beq_self_eq_true, Bool.true_and, hlv]
  by_cases hml : m = l
  · subst hml
    have := hiff.mpr hmn
    simp [this]
  · have hne : (m == l) = false := by simp [hml]
    rw [hne]
    have : ¬ ((e.variants.find? (·.name == l)).bind variantNat = some d) := by
      intro h
      have := hiff.mp h
      rw [hmn] at this
      exact hml (by simpa using this)
    simp [this]

/-! ### all kinds together -/

theorem enumMemberName_some {a : Ast} {e : Enum} {d : Nat} (h : enumHasValue a e d = true) : ∃ m, enumMemberName a e d = some m := by
  simp only [enumHasValue, List.any_eq_true] at h
  obtain ⟨var, hvar, hval⟩ := h
  cases hf : e.variants.find? (fun x => enumMemberValue a x == some d) with
  | some w => exact ⟨w.name, by simp [enumMemberName, hf]⟩
  | none =>
    have := List.find?_eq_none.mp hf var hvar
    simp [hval] at this

/-- the emitted pattern of any declared label matches the discriminant's value iff the label denotes that word -/
theorem label_matches {a : Ast} (F : SFacts a) (u : Union) (d : Nat)
    (hd : discOk a (discKind a u.switch.varType) d = true) (l : String)
    (hl : labelKindOk a (discKind a u.switch.varType) l = true) :
    patMatches a (matcherOf a u.switch.varType l) (scrutOf a u d) = (labelValue a l == some d) := by
  simp only [scrutOf]
  cases hk : discKind a u.switch.varType with
  | u32 =>
    simp only [hk, discOk, decide_eq_true_eq] at hd
    simp only [hk, labelKindOk, Bool.and_eq_true, bne_iff_ne, ne_eq, beq_iff_eq] at hl
    exact label_int F _ _ d hd l hl.2.1.1.1 (Or.inl rfl) hl.2.1.1.2 hl.2.1.2 hl.2.2
  | i32 =>
    simp only [hk, discOk, decide_eq_true_eq] at hd
    simp only [hk, labelKindOk, Bool.and_eq_true, bne_iff_ne, ne_eq, beq_iff_eq] at hl
    have hsome : (labelValue a l).isSome = true := by
      cases hv : labelValue a l with
      | none => simp [hv] at hl
      | some v => rfl
    refine label_int F _ _ d hd l hsome (Or.inr ⟨rfl, ?_⟩) hl.2.1.1.2 hl.2.1.2 hl.2.2
    intro v hv
    simpa [hv] using hl.2.1.1.1
  | bool =>
    simp only [hk, discOk, decide_eq_true_eq] at hd
    simp only [hk, labelKindOk, Bool.and_eq_true, bne_iff_ne, ne_eq, Bool.or_eq_true, beq_iff_eq] at hl
    exact label_bool F _ d hd l hl.2
  | enum e =>
    simp only [hk, discOk] at hd
    simp only [hk, labelKindOk, Bool.and_eq_true] at hl
    obtain ⟨m, hm⟩ := enumMemberName_some hd
    simp only [hm]
    -- the enum the switch names
    have hb : ∃ nm, bget nm a.types = some (.enum e) := by
      simp only [discKind] at hk
      cases hvt : u.switch.varType <;> simp only [hvt] at hk <;> try (cases hk)
      rename_i nm
      cases hg : bget nm a.types with
      | none => simp [hg] at hk
      | some ty =>
        cases ty with
        | enum e' => simp only [hg] at hk; cases hk; exact ⟨nm, hg⟩
        | struct _ => simp [hg] at hk
        | union _ => simp [hg] at hk
        | typedef td =>
          simp only [hg] at hk
          obtain ⟨target, alias⟩ := td
          rcases alias with t2 | ⟨t2, sz⟩ | ⟨t2, m2⟩ <;> cases target <;> simp at hk
    obtain ⟨nm, hb⟩ := hb
    exact label_enum F _ nm e hb d m hm l hl.2
  | unsupported => simp [hk, discOk] at hd

/-! ### arm lists -/

theorem selectArm_append (a : Ast) (sv : Val) : ∀ (xs ys : List Arm),
    selectArm a sv (xs ++ ys) = (match selectArm a sv xs with | some r => some r | none => selectArm a sv ys) := by
  intro xs
  induction xs with
  | nil => intro ys; rfl
  | cons x rest ih =>
    intro ys
    simp only [List.cons_append, selectArm]
    split
    · rfl
    · exact ih ys

/-- arms made from a list of labels select the first label that denotes the word -/
theorem select_labels {a : Ast} (sv : Val) (d : Nat) (mk : String → Arm)
    (hmk : ∀ l, (mk l).variant = l) :
    ∀ (ls : List String), (∀ l ∈ ls, patMatches a (mk l).pat sv = (labelValue a l == some d)) →
      selectArm a sv (ls.map mk) = (findCaseLabel a d ls).map mk := by
  intro ls
  induction ls with
  | nil => intro _; rfl
  | cons l rest ih =>
    intro h
    simp only [List.map_cons, selectArm, findCaseLabel, h l List.mem_cons_self]
    split
    · rfl
    · exact ih (fun l' hl' => h l' (List.mem_cons_of_mem _ hl'))

/-- the data arms: the emitted list selects the case `findDataCase` finds, with that case's decoder -/
theorem select_cases {a : Ast} (swTy : BasicType) (sv : Val) (d : Nat) :
    ∀ (cases : List UnionCase) (dataArms : List (List Arm)),
      mapG (emitCase a swTy) cases = .ok dataArms →
      (∀ c ∈ cases, ∀ l ∈ c.caseValues, patMatches a (matcherOf a swTy l) sv = (labelValue a l == some d)) →
      (match findDataCase a d cases with
       | some (l, ty) => ∃ arm fd, selectArm a sv dataArms.flatten = some arm ∧ arm.variant = l ∧ arm.payload = some fd ∧
           decodeArray a ty .useAlias = .ok fd ∧ ∃ c ∈ cases, c.fieldValue = ty ∧ l ∈ c.caseValues
       | none => selectArm a sv dataArms.flatten = none) := by
  intro cases
  induction cases with
  | nil => intro dataArms he _; simp only [mapG] at he; cases he; simp [findDataCase, selectArm]
  | cons c rest ih =>
    intro dataArms he hlm
    simp only [mapG] at he
    obtain ⟨b, hb, he⟩ := G.bind_eq_ok he
    obtain ⟨bs, hbs, he⟩ := G.bind_eq_ok he
    cases he
    simp only [emitCase] at hb
    obtain ⟨fd, hfd, hb⟩ := G.bind_eq_ok hb
    cases hb
    simp only [List.flatten_cons, selectArm_append]
    have hsel := select_labels (a := a) sv d (fun l => (⟨matcherOf a swTy l, l, some fd⟩ : Arm)) (fun _ => rfl) c.caseValues
      (fun l hl => hlm c List.mem_cons_self l hl)
    simp only [findDataCase]
    cases hf : findCaseLabel a d c.caseValues with
    | some l =>
      simp only [hsel, hf, Option.map_some]
      have hmem : l ∈ c.caseValues := by
        clear hsel hlm hfd
        generalize c.caseValues = ls at hf
        induction ls with
        | nil => simp [findCaseLabel] at hf
        | cons x xs ihx =>
          simp only [findCaseLabel] at hf
          split at hf
          · cases hf; exact List.mem_cons_self
          · exact List.mem_cons_of_mem _ (ihx hf)
      exact ⟨_, fd, rfl, rfl, rfl, hfd, c, List.mem_cons_self, rfl, hmem⟩
    | none =>
      simp only [hsel, hf, Option.map_none]
      have := ih bs hbs (fun c' hc' l hl => hlm c' (List.mem_cons_of_mem _ hc') l hl)
      cases hfr : findDataCase a d rest with
      | none => simp only [hfr] at this ⊢; exact this
      | some p =>
        obtain ⟨l, ty⟩ := p
        simp only [hfr] at this ⊢
        obtain ⟨arm, fd', h1, h2, h3, h4, c', hc', h5, h6⟩ := this
        exact ⟨arm, fd', h1, h2, h3, h4, c', List.mem_cons_of_mem _ hc', h5, h6⟩

theorem findCaseLabel_mem {a : Ast} {d : Nat} : ∀ {ls : List String} {l : String}, findCaseLabel a d ls = some l → l ∈ ls := by
  intro ls
  induction ls with
  | nil => intro l h; simp [findCaseLabel] at h
  | cons x xs ih =>
    intro l h
    simp only [findCaseLabel] at h
    split at h
    · cases h; exact List.mem_cons_self
    · exact List.mem_cons_of_mem _ (ih h)

/-- the void arms: labels before a trailing `default` select themselves, then the `_` arm of a void default -/
theorem select_voids {a : Ast} (swTy : BasicType) (sv : Val) (d : Nat) :
    ∀ (vs : List String),
      (∀ l ∈ vs, l ≠ "default" → patMatches a (matcherOf a swTy l) sv = (labelValue a l == some d)) →
      (match vs.reverse with | [] => true | _ :: rest => !(rest.contains "default")) = true →
      selectArm a sv (vs.map (emitVoid a swTy)) =
        (match findCaseLabel a d (vs.filter (· != "default")) with
         | some l => some ⟨matcherOf a swTy l, l, none⟩
         | none => if vs.contains "default" then some ⟨.wild, "default", none⟩ else none) := by
  intro vs
  induction vs with
  | nil => intro _ _; rfl
  | cons v rest ih =>
    intro hlm hlast
    by_cases hv : v = "default"
    · -- a default that is not last is excluded; so `rest` is empty
      subst hv
      have hrest : rest = [] := by
        cases hr : rest.reverse with
        | nil => simpa using hr
        | cons x xs =>
          exfalso
          have : ("default" :: rest).reverse = x :: (xs ++ ["default"]) := by simp [hr]
          simp [this] at hlast
      subst hrest
      simp [emitVoid, selectArm, patMatches, findCaseLabel]
    · have hne : (v == "default") = false := by simp [hv]
      have hlast' : (match rest.reverse with | [] => true | _ :: r => !(r.contains "default")) = true := by
        cases hr : rest.reverse with
        | nil => rfl
        | cons x xs =>
          have : (v :: rest).reverse = x :: (xs ++ [v]) := by simp [hr]
          simp only [this] at hlast
          simp only [Bool.not_eq_true', List.contains_eq_mem, List.mem_append, decide_eq_false_iff_not] at hlast ⊢
          intro hmem
          exact hlast (by simp [List.contains_eq_mem] at hmem ⊢; exact Or.inl hmem)
      have ih' := ih (fun l hl => hlm l (List.mem_cons_of_mem _ hl)) hlast'
      have hm := hlm v List.mem_cons_self hv
      have hfilt : (v :: rest).filter (· != "default") = v :: rest.filter (· != "default") := by simp [hv]
      have hcont : (v :: rest).contains "default" = rest.contains "default" := by
        simp [List.contains_cons, hv, Ne.symm hv]
      simp only [List.map_cons, emitVoid, hne, Bool.false_eq_true, if_false, selectArm, hm, hfilt, findCaseLabel, hcont]
      split
      · rfl
      · exact ih'

/-! ### the discriminant decoder -/

theorem disc_decode {a : Ast} {m : Module} (hs : Supported a = true) (hg : generateModule a = .ok m) (u : Union)
    (hk : (match discKind a u.switch.varType with | .unsupported => false | _ => true) = true)
    (disc : BasicDec) (he : decodeBasic a u.switch.varType .useTarget = .ok disc)
    (d : Nat) (hd : discOk a (discKind a u.switch.varType) d = true) (fuel off : Nat) (s : List Byte) (l) :
    DecOk (evalBasic a m.plans (fuel + 2) disc ⟨off, be32 d ++ s, l⟩) (scrutOf a u d) (off + 4) s := by
  have F := sfacts_of_supported hs
  simp only [scrutOf]
  cases hvt : u.switch.varType
  case u32 =>
    simp only [hvt, decodeBasic, decodeBasicAlias] at he; cases he
    simp only [hvt, discKind, discOk, decide_eq_true_eq] at hd ⊢
    exact ⟨l, by simp [evalBasic, readPrim, Res.map, readU32_be32 d hd]⟩
  case i32 =>
    simp only [hvt, decodeBasic, decodeBasicAlias] at he; cases he
    simp only [hvt, discKind, discOk, decide_eq_true_eq] at hd ⊢
    exact ⟨l, by simp [evalBasic, readPrim, readI32, Res.map, readU32_be32 d hd]⟩
  case bool =>
    simp only [hvt, decodeBasic, decodeBasicAlias] at he; cases he
    simp only [hvt, discKind, discOk, decide_eq_true_eq] at hd ⊢
    refine ⟨l, ?_⟩
    rcases Nat.le_one_iff_eq_zero_or_eq_one.mp hd with rfl | rfl
    · have := readBool_enc false off s l
      simp only [Bool.false_eq_true, if_false] at this
      simp [evalBasic, readPrim, Res.map, this]
    · have := readBool_enc true off s l
      simp only [if_true] at this
      simp [evalBasic, readPrim, Res.map, this]
  case ident nm =>
    simp only [hvt, discKind] at hk hd ⊢
    simp only [hvt, decodeBasic, Ast.getType] at he
    cases hg' : bget nm a.types with
    | none => simp [hg'] at hk
    | some ty =>
      cases ty with
      | struct _ => simp [hg'] at hk
      | union _ => simp [hg'] at hk
      | enum e =>
        simp only [hg'] at he hd ⊢
        cases he
        simp only [discOk] at hd
        obtain ⟨mname, hm⟩ := enumMemberName_some hd
        simp only [hm]
        -- the enum's own decoder, on a declared value
        have hname : e.name = nm := by
          have := F.keys (nm, .enum e) (bget_mem hg')
          simpa [AstType.rustName] using this.symm
        obtain ⟨hkeys, _, _, _, _⟩ := Supported.facts hs
        obtain ⟨hkn, _, _⟩ := keysOk_facts hkeys
        obtain ⟨_, _, h2, _⟩ := generateModule_ok hg
        obtain ⟨i, hi, hemit⟩ := find_impl_of_types a a.types m.fromRefMut h2 hkn nm _ hg'
        simp only [emitImpl] at hemit
        cases hemit
        have hfi : m.plans.findImpl nm = some ⟨e.name, a.isGeneric e.name, .enum (e.variants.map fun v => (v.value, v.name))⟩ := by
          simp only [Module.plans, Plans.findImpl]; exact hi
        have hok := F.tyOk nm _ hg'
        have hlt : d < 2^31 := enum_value_lt e hok d hd
        have hts : toSigned 32 d = (d : Int) := by simp [toSigned, hlt]
        simp only [typeOk, enumOk, Bool.and_eq_true] at hok
        have hsel := enum_select (a := a) e.variants hok.1.2 d
        have hm' : (e.variants.find? fun v => enumMemberValue a v == some d).map (·.name) = some mname := hm
        refine ⟨l, ?_⟩
        simp only [hname, evalBasic, evalImpl, hfi, readI32, Res.map, readU32_be32 d (by omega), Res.bind_ok, hts, hsel, hm']
      | typedef td =>
        simp only [hg'] at hk he hd ⊢
        cases he
        obtain ⟨target, alias⟩ := td
        rcases alias with t2 | ⟨t2, sz⟩ | ⟨t2, m2⟩ <;> cases target <;> simp at hk
        · simp only [discOk, decide_eq_true_eq] at hd
          exact ⟨l, by simp [decodeBasicAlias, evalBasic, readPrim, Res.map, readU32_be32 d hd]⟩
        · simp only [discOk, decide_eq_true_eq] at hd
          exact ⟨l, by simp [decodeBasicAlias, evalBasic, readPrim, readI32, Res.map, readU32_be32 d hd]⟩
  all_goals simp [hvt, discKind] at hk

/-! ### assembly -/

theorem allLabels_mem_case {u : Union} {c : UnionCase} (hc : c ∈ u.cases) {l : String} (hl : l ∈ c.caseValues) : l ∈ allLabels u := by
  simp only [allLabels, List.mem_append, List.mem_flatten, List.mem_map]
  exact Or.inl (Or.inl ⟨c.caseValues, ⟨c, hc, rfl⟩, hl⟩)

theorem allLabels_mem_void {u : Union} {l : String} (hl : l ∈ u.voidCases) (hne : l ≠ "default") : l ∈ allLabels u := by
  simp only [allLabels, List.mem_append, List.mem_filter, bne_iff_ne, ne_eq]
  exact Or.inl (Or.inr ⟨hl, hne⟩)

/-- C06 (match selects): for a supported specification the generated `match` takes the arm the specification declares. -/
theorem match_selects_of_supported {a : Ast} {m : Module} (hs : Supported a = true) (hg : generateModule a = .ok m) :
    MatchSelects a m.plans := by
  have F := sfacts_of_supported hs
  intro n u i ud hb hfi hbody d hd
  obtain ⟨_, _, h2, _⟩ := generateModule_ok hg
  obtain ⟨i', hi', hemit⟩ := find_impl_of_types a a.types m.fromRefMut h2 F.keys n _ hb
  have hii : i' = i := by
    have : m.plans.findImpl n = some i' := by simp only [Module.plans, Plans.findImpl]; exact hi'
    rw [this] at hfi; exact Option.some.inj hfi
  subst hii
  simp only [emitImpl] at hemit
  obtain ⟨ud', hud, hemit⟩ := G.bind_eq_ok hemit
  cases hemit
  simp only at hbody
  cases hbody
  have hu := F.tyOk n _ hb
  simp only [typeOk] at hu
  have hu0 := hu
  simp only [unionOk, Bool.and_eq_true] at hu
  obtain ⟨⟨⟨⟨⟨hk, hcases⟩, hdef⟩, hlab⟩, _⟩, hlast⟩ := hu
  simp only [emitUnion] at hud
  obtain ⟨disc, hdisc, hud⟩ := G.bind_eq_ok hud
  obtain ⟨dataArms, hdata, hud⟩ := G.bind_eq_ok hud
  obtain ⟨tail, htail, hud⟩ := G.bind_eq_ok hud
  cases hud
  have hmatch : ∀ l ∈ allLabels u,
      patMatches a (matcherOf a u.switch.varType l) (scrutOf a u d) = (labelValue a l == some d) :=
    fun l hl => label_matches F u d hd l ((List.all_eq_true.mp hlab) l hl)
  refine ⟨fun fuel off s l => disc_decode hs hg u hk disc hdisc d hd fuel off s l, ?_⟩
  simp only
  have hC := select_cases u.switch.varType (scrutOf a u d) d u.cases dataArms hdata
    (fun c hc l hl => hmatch l (allLabels_mem_case hc hl))
  have hV := select_voids u.switch.varType (scrutOf a u d) d u.voidCases
    (fun l hl hne => hmatch l (allLabels_mem_void hl hne)) hlast
  simp only [selectDeclared]
  rw [selectArm_append]
  cases hfd : findDataCase a d u.cases with
  | some lt =>
    obtain ⟨lab, ty⟩ := lt
    simp only [hfd] at hC ⊢
    obtain ⟨arm, fd, hsel, hvar, hpay, hdec, c, hc, hcty, hlc⟩ := hC
    have hne : lab ≠ "default" := unionOk_labels_ne_default hu0 c hc lab hlc
    simp only [hne, if_false]
    refine ⟨arm, fd, by simp [hsel], hvar, hpay, hdec, ?_⟩
    have := (List.all_eq_true.mp hcases) c hc
    simp only [Bool.and_eq_true] at this
    rw [← hcty]; exact elemOk_of_armTypeOk this.1
  | none =>
    simp only [hfd] at hC ⊢
    simp only [hC]
    cases hfv : findCaseLabel a d (u.voidCases.filter (· != "default")) with
    | some lab =>
      simp only [hfv] at hV ⊢
      exact ⟨_, hV, rfl, rfl⟩
    | none =>
      simp only [hfv] at hV ⊢
      cases hdf : u.default with
      | some dc =>
        simp only [hdf] at hdef htail ⊢
        simp only [Bool.and_eq_true, Bool.not_eq_true'] at hdef
        obtain ⟨⟨hat, hnov⟩, _⟩ := hdef
        obtain ⟨dd, hdd, htail⟩ := G.bind_eq_ok htail
        cases htail
        simp only [hnov, Bool.false_eq_true, if_false] at hV
        simp only [if_true]
        exact ⟨hV, dd, rfl, hdd, elemOk_of_armTypeOk hat⟩
      | none =>
        simp only [hdf]
        cases hcd : u.voidCases.contains "default" with
        | true =>
          simp only [hcd, if_true] at hV ⊢
          exact ⟨_, hV, rfl, rfl⟩
        | false =>
          simp only [hcd, Bool.false_eq_true, if_false] at hV htail ⊢
          simp only [hdf] at htail
          cases htail
          exact ⟨hV, rfl⟩

end Fx
