/-
  Fx.Lemmas.EmitTotal — the emitters have one panic site (`unreachable!("unexpected fixed length string")`, finding K6.e);
  every other outcome of `Generator::generate` after a successful `Ast::new` is `Ok` or `Err`.
-/
import Fx.Emit
import Fx.Lemmas.Emit
namespace Fx

/-- the only way `g` panics is the fixed-length-string site -/
def G1 {α} (g : G α) : Prop := ∀ f m, g = .panicAt f m → f = "from.rs" ∧ m = "unexpected fixed length string"

theorem G1.ok {α} (x : α) : G1 (G.ok x) := fun _ _ h => by cases h
theorem G1.err {α} (e : String) : G1 (G.err e : G α) := fun _ _ h => by cases h

theorem G1.bind {α β} {g : G α} {k : α → G β} (h1 : G1 g) (h2 : ∀ x, G1 (k x)) : G1 (g.bind k) := by
  cases g with
  | ok x => exact h2 x
  | err e => intro f m h; cases h
  | panicAt f0 m0 => intro f m h; exact h1 f m (by simpa [G.bind] using h)

theorem G1.mapG {α β} (k : α → G β) (hk : ∀ x, G1 (k x)) : ∀ (l : List α), G1 (mapG k l) := by
  intro l
  induction l with
  | nil => exact G1.ok _
  | cons x xs ih =>
    simp only [Fx.mapG]
    exact G1.bind (hk x) (fun b => G1.bind ih (fun bs => G1.ok _))

theorem decodeBasic_g1 (a : Ast) (t : BasicType) (r : TypeResolve) : G1 (decodeBasic a t r) := by
  intro f m h
  unfold decodeBasic at h
  split at h
  · split at h <;> cases h
  · cases h

theorem resolveSize_g1 (a : Ast) (s : ArraySize) : G1 (resolveSize a s) := by
  intro f m h
  cases s with
  | known n => cases h
  | constant c =>
    simp only [resolveSize] at h
    split at h
    · split at h <;> cases h
    · cases h

theorem printFixed_g1 (a : Ast) (t : BasicType) (n : Nat) (r : TypeResolve) : G1 (printFixed a t n r) := by
  intro f m h
  simp only [printFixed] at h
  split at h
  · cases h
  · injection h with h1 h2; exact ⟨h1.symm, h2.symm⟩
  · split at h
    · cases h
    · exact G1.bind (decodeBasic_g1 a t r) (fun b => G1.ok _) f m h

theorem printVariable_g1 (a : Ast) (t : BasicType) (sz : Option Nat) (r : TypeResolve) : G1 (printVariable a t sz r) := by
  intro f m h
  simp only [printVariable] at h
  split at h <;> cases h

theorem decodeArray_g1 (a : Ast) (at_ : ArrayType) (r : TypeResolve) : G1 (decodeArray a at_ r) := by
  cases at_ with
  | none t => exact G1.bind (decodeBasic_g1 a t r) (fun b => G1.ok _)
  | fixed t sz => exact G1.bind (resolveSize_g1 a sz) (fun n => printFixed_g1 a t n r)
  | «variable» t m =>
    cases m with
    | none => exact printVariable_g1 a t none r
    | some sz => exact G1.bind (resolveSize_g1 a sz) (fun n => printVariable_g1 a t (some n) r)

theorem emitStructField_g1 (a : Ast) (fld : StructField) : G1 (emitStructField a fld) := by
  simp only [emitStructField]
  split
  · exact G1.ok _
  · exact G1.bind (decodeArray_g1 a _ _) (fun d => G1.ok _)

theorem emitCase_g1 (a : Ast) (sw : BasicType) (c : UnionCase) : G1 (emitCase a sw c) :=
  G1.bind (decodeArray_g1 a _ _) (fun d => G1.ok _)

theorem emitUnion_g1 (a : Ast) (u : Union) : G1 (emitUnion a u) := by
  simp only [emitUnion]
  refine G1.bind (decodeBasic_g1 a _ _) (fun disc => G1.bind (G1.mapG _ (emitCase_g1 a _) _) (fun arms => ?_))
  refine G1.bind ?_ (fun tail => G1.ok _)
  split
  · exact G1.bind (decodeArray_g1 a _ _) (fun dd => G1.ok _)
  · exact G1.ok _

theorem emitImpl_g1 (a : Ast) (t : AstType) : G1 (emitImpl a t) := by
  cases t with
  | struct s => exact G1.bind (G1.mapG _ (emitStructField_g1 a) _) (fun fs => G1.ok _)
  | union u => exact G1.bind (emitUnion_g1 a u) (fun ud => G1.ok _)
  | enum e => exact G1.ok _
  | typedef td => exact G1.bind (decodeArray_g1 a _ _) (fun d => G1.ok _)

/-- `Generator::generate` after `Ast::new`: Ok, Err, or the one known panic (K6.e) -/
theorem generateModule_g1 (a : Ast) : G1 (generateModule a) := by
  simp only [generateModule, emitFrom]
  exact G1.bind (G1.mapG _ (emitImpl_g1 a) _) (fun f1 => G1.bind (G1.mapG _ (emitImpl_g1 a) _) (fun f2 => G1.ok _))

end Fx
