/-
  Fx.Lemmas.LogBound — every allocation request of a decode call is bounded by the bytes present.
-/
import Fx.Lemmas.Advance
namespace Fx

/-- how much an allocation event reserves, in units backed by input bytes: reserved elements, copied bytes, one
    optional link (whose marker alone occupied four bytes) -/
def Ev.weight : Ev → Nat
  | .vec n => n
  | .str n => n
  | .box => 4

/-- `l'` extends `l` by events each of weight at most `n` -/
def LogOk (n : Nat) (l l' : List Ev) : Prop := ∃ new, l' = l ++ new ∧ ∀ e ∈ new, e.weight ≤ n

theorem LogOk.refl (n : Nat) (l : List Ev) : LogOk n l l := ⟨[], by simp, by simp⟩

theorem LogOk.trans {n l l1 l2} (h1 : LogOk n l l1) (h2 : LogOk n l1 l2) : LogOk n l l2 := by
  obtain ⟨a, ha, wa⟩ := h1
  obtain ⟨b, hb, wb⟩ := h2
  refine ⟨a ++ b, by rw [hb, ha, List.append_assoc], ?_⟩
  intro e he
  rcases List.mem_append.mp he with h | h
  · exact wa e h
  · exact wb e h

theorem LogOk.mono {n m l l'} (h : LogOk n l l') (hnm : n ≤ m) : LogOk m l l' := by
  obtain ⟨a, ha, wa⟩ := h
  exact ⟨a, ha, fun e he => Nat.le_trans (wa e he) hnm⟩

theorem LogOk.snoc {n l} (e : Ev) (h : e.weight ≤ n) : LogOk n l (l ++ [e]) :=
  ⟨[e], rfl, by simp [h]⟩

/-- the log an outcome carries -/
def Res.log? {α} : Res α → Option (List Ev)
  | .ok _ c => some c.log
  | .err _ l => some l
  | _ => none

/-- the outcome's log extends the cursor's log by events bounded by the bytes that were present -/
def LogB {α} (c : Cur) (r : Res α) : Prop := ∀ l', r.log? = some l' → LogOk c.remaining c.log l'

theorem LogB.bind {α β} {c : Cur} {r : Res α} {f : α → Cur → Res β} (h1 : LogB c r)
    (h2 : ∀ a c1, r = .ok a c1 → c1.remaining ≤ c.remaining ∧ LogB c1 (f a c1)) : LogB c (r.bind f) := by
  cases r with
  | ok a c1 =>
    intro l' hl
    obtain ⟨hle, hb⟩ := h2 a c1 rfl
    have s1 := h1 c1.log rfl
    have s2 := hb l' hl
    exact s1.trans (s2.mono hle)
  | err e l => intro l' hl; exact h1 l' hl
  | panic s => intro l' hl; cases hl
  | abort => intro l' hl; cases hl
  | outOfFuel => intro l' hl; cases hl

theorem LogB.of_same_log {α} {c : Cur} {r : Res α} (h : ∀ l', r.log? = some l' → l' = c.log) : LogB c r := by
  intro l' hl; rw [h l' hl]; exact LogOk.refl _ _

theorem readU32_logB (c : Cur) : LogB c (readU32 c) := by
  apply LogB.of_same_log
  intro l' hl
  unfold readU32 at hl
  split at hl
  · cases hl; rfl
  · unfold getU32P at hl
    split at hl
    · cases hl; rfl
    · cases hl

theorem readU64_logB (c : Cur) : LogB c (readU64 c) := by
  apply LogB.of_same_log
  intro l' hl
  unfold readU64 at hl
  split at hl
  · cases hl; rfl
  · unfold getU64P at hl
    split at hl
    · cases hl; rfl
    · cases hl

theorem LogB.map {α β} {c : Cur} {r : Res α} {g : α → β} (h : LogB c r) : LogB c (r.map g) := by
  cases r with
  | ok a c1 => exact h
  | err e l => exact h
  | panic s => intro l' hl; cases hl
  | abort => intro l' hl; cases hl
  | outOfFuel => intro l' hl; cases hl

theorem readBool_logB (c : Cur) : LogB c (readBool c) := by
  unfold readBool
  apply LogB.bind (LogB.map (readU32_logB c))
  intro i c1 h1
  refine ⟨(readI32_adv h1).remaining_le, ?_⟩
  apply LogB.of_same_log
  intro l' hl
  split at hl
  · cases hl; rfl
  · split at hl <;> cases hl <;> rfl

theorem readBytes_logB (n : Nat) (c : Cur) : LogB c (readBytes n c) := by
  apply LogB.of_same_log
  intro l' hl
  by_cases hs : c.remaining < n + padLen n
  · rw [readBytes_short n c hs] at hl; cases hl; rfl
  · rw [readBytes_enough n c (by omega)] at hl; cases hl; rfl

theorem readVariableBytes_logB (m : Option Nat) (c : Cur) : LogB c (readVariableBytes m c) := by
  unfold readVariableBytes
  apply LogB.bind (readU32_logB c)
  intro n c1 h1
  refine ⟨(readU32_adv h1).remaining_le, ?_⟩
  split
  · exact LogB.of_same_log (fun l' hl => by cases hl; rfl)
  · exact readBytes_logB n c1

theorem readVariableBytes_payload {m : Option Nat} {c : Cur} {v : Val} {c' : Cur}
    (h : readVariableBytes m c = .ok v c') : c'.log = c.log ∧ (payloadOf v).length ≤ c.remaining := by
  unfold readVariableBytes at h
  obtain ⟨n, c1, h1, h2⟩ := Res.bind_eq_ok h
  split at h2
  · cases h2
  · obtain ⟨e, l4, _, _⟩ := readU32_ok h1
    obtain ⟨hl, hv, hc⟩ := readBytes_ok h2
    subst e
    subst hv
    subst hc
    refine ⟨rfl, ?_⟩
    simp only [payloadOf, List.length_take, Cur.advance_data, List.length_drop]
    simp only [Cur.remaining] at *
    omega

theorem readString_logB (m : Option Nat) (c : Cur) : LogB c (readString m c) := by
  unfold readString
  cases hr : readVariableBytes m c with
  | ok b c1 =>
    obtain ⟨hlog, hlen⟩ := readVariableBytes_payload hr
    intro l' hl
    simp only [Res.bind_ok] at hl
    split at hl
    · cases hl
      simp only [Cur.addLog, hlog]
      exact LogOk.snoc _ hlen
    · cases hl
      simp only [Cur.addLog, hlog]
      exact LogOk.snoc _ hlen
  | err e l =>
    have := readVariableBytes_logB m c
    rw [hr] at this
    exact this
  | panic s => intro l' hl; cases hl
  | abort => intro l' hl; cases hl
  | outOfFuel => intro l' hl; cases hl

theorem readPrim_logB (p : Prim) (c : Cur) : LogB c (readPrim p c) := by
  cases p <;> simp only [readPrim]
  · exact LogB.map (readU32_logB c)
  · exact LogB.map (readU64_logB c)
  · exact LogB.map (LogB.map (readU32_logB c))
  · exact LogB.map (LogB.map (readU64_logB c))
  · exact LogB.map (readU32_logB c)
  · exact LogB.map (readU64_logB c)
  · exact LogB.map (readBool_logB c)

/-- the element loop: every event of every element decode is bounded by the bytes present when the loop started -/
theorem arrLoop_logB (dec : Cur → Res Val) (ws : Val → Nat) (hd : ∀ c, LogB c (dec c))
    (hadv : ∀ c v c', dec c = .ok v c' → True) :
    ∀ (k : Nat) (c : Cur) (sum : Nat) (acc : Vals), LogB c (arrLoop dec ws k c sum acc) := by
  intro k
  induction k with
  | zero => intro c sum acc; exact LogB.of_same_log (fun l' hl => by simp only [arrLoop] at hl; cases hl; rfl)
  | succ k ih =>
    intro c sum acc
    simp only [arrLoop]
    have hdc := hd c
    split
    · rename_i t ct hdec
      rw [hdec] at hdc
      have s1 : LogOk c.remaining c.log ct.log := hdc ct.log rfl
      split
      · intro l' hl; cases hl; exact s1
      · intro l' hl
        have := ih { c.advance (ws t) with log := ct.log } (sum + ws t) (acc.snoc t) l' hl
        have hle : ({ c.advance (ws t) with log := ct.log } : Cur).remaining ≤ c.remaining := by
          simp [Cur.remaining]
        exact s1.trans (this.mono hle)
    · rename_i e l hdec
      rw [hdec] at hdc
      exact hdc
    · intro l' hl; cases hl
    · intro l' hl; cases hl
    · intro l' hl; cases hl

theorem readVariableArray_logB (dec : Cur → Res Val) (ws : Val → Nat) (hd : ∀ c, LogB c (dec c))
    (m : Option Nat) (c : Cur) : LogB c (readVariableArray dec ws m c) := by
  unfold readVariableArray
  apply LogB.bind (readU32_logB c)
  intro n c1 h1
  refine ⟨(readU32_adv h1).remaining_le, ?_⟩
  split
  · exact LogB.of_same_log (fun l' hl => by cases hl; rfl)
  · -- the reservation: min n (bytes present) ≤ bytes present
    intro l' hl
    simp only at hl
    have hres : LogOk c1.remaining c1.log (c1.addLog (.vec (min n c1.remaining))).log :=
      LogOk.snoc _ (Nat.min_le_right _ _)
    have hloop := arrLoop_logB dec ws hd (fun _ _ _ _ => trivial) n (c1.addLog (.vec (min n c1.remaining))) 0 .nil
    have hrem : (c1.addLog (.vec (min n c1.remaining))).remaining = c1.remaining := rfl
    cases hl2 : arrLoop dec ws n (c1.addLog (.vec (min n c1.remaining))) 0 .nil with
    | ok r c3 =>
      rw [hl2] at hl hloop
      have s2 : LogOk c1.remaining (c1.addLog (.vec (min n c1.remaining))).log c3.log := by
        have := hloop c3.log rfl; rwa [hrem] at this
      simp only [Res.bind_ok] at hl
      split at hl
      · cases hl; exact hres.trans s2
      · simp only [advanceP] at hl
        split at hl
        · cases hl
        · cases hl; exact hres.trans s2
    | err e l =>
      rw [hl2] at hl hloop
      cases hl
      have := hloop l' rfl
      rw [hrem] at this
      exact hres.trans this
    | panic s => rw [hl2] at hl; cases hl
    | abort => rw [hl2] at hl; cases hl
    | outOfFuel => rw [hl2] at hl; cases hl


/-- every allocation request of every decode — successful or not — is bounded by the bytes that were present
    when it was made, hence by the bytes of the input (ALL byte strings, ALL plans, every fuel) -/
theorem eval_logB (a : Ast) (p : Plans) (fuel : Nat) :
    (∀ n c, LogB c (evalImpl a p fuel n c)) ∧
    (∀ b c, LogB c (evalBasic a p fuel b c)) ∧
    (∀ fd c, LogB c (evalField a p fuel fd c)) ∧
    (∀ k b c, LogB c (evalRepeat a p fuel k b c)) ∧
    (∀ fs c, LogB c (evalFields a p fuel fs c)) := by
  induction fuel with
  | zero =>
    refine ⟨?_, ?_, ?_, ?_, ?_⟩ <;> intros <;> intro l' hl <;>
      simp [evalImpl, evalBasic, evalField, evalRepeat, evalFields, Res.log?] at hl
  | succ f ih =>
    obtain ⟨ihI, ihB, ihF, ihR, ihFs⟩ := ih
    obtain ⟨adI, adB, adF, adR, adFs⟩ := eval_adv a p f
    have okLog : ∀ {α} (c : Cur) (x : α), LogB c (Res.ok x c) := fun c x => LogB.of_same_log (fun l' hl => by cases hl; rfl)
    refine ⟨?_, ?_, ?_, ?_, ?_⟩
    · intro n c
      simp only [evalImpl]
      split
      · intro l' hl; cases hl
      · split
        · exact LogB.bind (ihFs _ c) (fun vs c1 h1 => ⟨(adFs _ _ _ _ h1).remaining_le, okLog _ _⟩)
        · rename_i u _
          apply LogB.bind (ihB _ c)
          intro d c1 h1
          refine ⟨(adB _ _ _ _ h1).remaining_le, ?_⟩
          split
          · split
            · exact LogB.bind (ihF _ c1) (fun v c2 h2 => ⟨(adF _ _ _ _ h2).remaining_le, okLog _ _⟩)
            · exact okLog _ _
          · split
            · exact LogB.bind (ihF _ c1) (fun v c2 h2 => ⟨(adF _ _ _ _ h2).remaining_le, okLog _ _⟩)
            · exact LogB.of_same_log (fun l' hl => by cases hl; rfl)
            · intro l' hl; cases hl
        · apply LogB.bind (LogB.map (readU32_logB c))
          intro i c1 h1
          refine ⟨(readI32_adv h1).remaining_le, ?_⟩
          split
          · exact okLog _ _
          · exact LogB.of_same_log (fun l' hl => by cases hl; rfl)
        · exact LogB.bind (ihF _ c) (fun v c1 h1 => ⟨(adF _ _ _ _ h1).remaining_le, okLog _ _⟩)
    · intro b c
      match b with
      | .prim pr => simp only [evalBasic]; exact readPrim_logB pr c
      | .string => simp only [evalBasic]; exact readString_logB none c
      | .opaque => simp only [evalBasic]; exact readVariableBytes_logB none c
      | .tryFrom n => simp only [evalBasic]; exact ihI n c
    · intro fd c
      cases fd with
      | one b => simp only [evalField]; exact ihB b c
      | fixedBytes n => simp only [evalField]; exact readBytes_logB n c
      | fixedArr n b =>
        simp only [evalField]
        exact LogB.bind (ihR n b c) (fun vs c1 h1 => ⟨(adR _ _ _ _ _ h1).remaining_le, okLog _ _⟩)
      | varBytes m => simp only [evalField]; exact readVariableBytes_logB m c
      | varString m => simp only [evalField]; exact readString_logB m c
      | varArr ty g m => simp only [evalField]; exact readVariableArray_logB _ _ (fun c' => ihI ty c') m c
    · intro k b c
      cases k with
      | zero => simp only [evalRepeat]; exact okLog _ _
      | succ k =>
        simp only [evalRepeat]
        apply LogB.bind (ihB b c)
        intro v c1 h1
        refine ⟨(adB _ _ _ _ h1).remaining_le, ?_⟩
        exact LogB.bind (ihR k b c1) (fun vs c2 h2 => ⟨(adR _ _ _ _ _ h2).remaining_le, okLog _ _⟩)
    · intro fs c
      cases fs with
      | nil => simp only [evalFields]; exact okLog _ _
      | cons fld rest =>
        simp only [evalFields]
        -- the first field, then the rest
        have hfirst : ∀ (r : Res Val), LogB c r → (∀ v c1, r = .ok v c1 → c1.remaining ≤ c.remaining) →
            LogB c (r.bind fun v c' => (evalFields a p f rest c').bind fun vs c'' => Res.ok (Vals.cons v vs) c'') := by
          intro r hr hle
          apply LogB.bind hr
          intro v c1 h1
          refine ⟨hle v c1 h1, ?_⟩
          exact LogB.bind (ihFs rest c1) (fun vs c2 h2 => ⟨(adFs _ _ _ _ h2).remaining_le, okLog _ _⟩)
        cases fld with
        | plain nm fd => exact hfirst _ (ihF fd c) (fun v c1 h1 => (adF _ _ _ _ h1).remaining_le)
        | optional nm ty =>
          apply hfirst
          · -- marker, inner value, then one Box: the Box is backed by the four bytes of the marker
            intro l' hl
            cases hm : readU32 c with
            | ok m c1 =>
              obtain ⟨e1, l4, _, _⟩ := readU32_ok hm
              have hlog1 : c1.log = c.log := by rw [e1]; rfl
              have hrem1 : c1.remaining ≤ c.remaining := (readU32_adv hm).remaining_le
              simp only [hm, Res.bind_ok] at hl
              split at hl
              · cases hl; rw [hlog1]; exact LogOk.refl _ _
              · split at hl
                · cases hi : evalImpl a p f ty c1 with
                  | ok v c2 =>
                    simp only [hi, Res.bind_ok, Res.log?] at hl
                    cases hl
                    have s1 : LogOk c1.remaining c1.log c2.log := by
                      have := ihI ty c1; rw [hi] at this; exact this c2.log rfl
                    rw [hlog1] at s1
                    exact (s1.mono hrem1).trans (LogOk.snoc _ (by simpa [Ev.weight] using l4))
                  | err e l =>
                    simp only [hi, Res.bind_err, Res.log?] at hl
                    cases hl
                    have := ihI ty c1; rw [hi] at this
                    have s1 := this l' rfl
                    rw [hlog1] at s1
                    exact s1.mono hrem1
                  | panic s => simp [hi, Res.log?] at hl
                  | abort => simp [hi, Res.log?] at hl
                  | outOfFuel => simp [hi, Res.log?] at hl
                · cases hl; rw [hlog1]; exact LogOk.refl _ _
            | err e l =>
              have := readU32_logB c
              rw [hm] at this
              simp only [hm, Res.bind_err] at hl
              exact this l' hl
            | panic s => simp [hm, Res.log?] at hl
            | abort => simp [hm, Res.log?] at hl
            | outOfFuel => simp [hm, Res.log?] at hl
          · intro v c1 h1
            obtain ⟨m, cm, h5, h6⟩ := Res.bind_eq_ok h1
            have a1 := readU32_adv h5
            split at h6
            · cases h6; exact a1.remaining_le
            · split at h6
              · obtain ⟨v3, c3, h7, h8⟩ := Res.bind_eq_ok h6
                cases h8
                exact (a1.trans ((adI _ _ _ _ h7).addLog _)).remaining_le
              · cases h6

end Fx
