/-
  Fx.Lemmas.PegLimit — the parser's answer without a budget.

  `Fx.Peg` is an interpreter with a recursion budget, and the executable front end (`Ast.new`) runs it at `fuelFor |text|`.
  The theorems about texts used to carry the disjunct "… unless that budget is exhausted".  This file removes it:
  because the grammar is a DAG the interpreter answers from some budget on (`parse_terminates`), and an answer does not
  change with more budget (`evalRule_fuel_mono`), so every text has *the* answer of the parser — `parseLim` — and
  `Ast.newLim` is the front end over it.  `newLim` is never `outOfFuel`, and the executable `Ast.new` equals it whenever
  `Ast.new` answers at all (`Ast.new_eq_newLim`).  The T3 tie compares `Ast.new` with the real `Ast::new`, and reports an
  exhausted budget as a broken tie.
-/
import Fx.Index
import Fx.Grammar
import Fx.Lemmas.PegTerm
import Fx.Lemmas.PegFuel
import Fx.Lemmas.PegRel
import Fx.Lemmas.WalkTotal
namespace Fx
open Peg

/-- the grammar translated from `src/xdr.pest` on this run has no recursion among its rules (closed term, `decide`) -/
theorem xdr_grammar_is_dag : Peg.dag Grammar.xdr = true := by decide

/-- every text has exactly one answer of the parser, reached from some budget on -/
theorem parse_answer_exists (txt : List Char) :
    ∃ r : PR, r ≠ .outOfFuel ∧ ∃ F, ∀ f, F ≤ f → evalRule Grammar.xdr f false "item" ⟨0, txt⟩ = r := by
  obtain ⟨F, hF⟩ := Peg.parse_terminates Grammar.xdr _ (Peg.dag_ranked _ xdr_grammar_is_dag) txt.length
  have h0 := hF "item" ⟨0, txt⟩ (Nat.le_refl _) F (Nat.le_refl _)
  exact ⟨_, h0, F, fun f hf => Peg.evalRule_fuel_mono Grammar.xdr false "item" ⟨0, txt⟩ F f hf h0⟩

/-- **the answer of the parser** on a text (`XDRParser::parse(Rule::item, text)`), independent of any budget -/
noncomputable def Peg.parseLim (txt : List Char) : PR := Classical.choose (parse_answer_exists txt)

theorem Peg.parseLim_ne (txt : List Char) : parseLim txt ≠ .outOfFuel := (Classical.choose_spec (parse_answer_exists txt)).1

theorem Peg.parseLim_spec (txt : List Char) : ∃ F, ∀ f, F ≤ f → evalRule Grammar.xdr f false "item" ⟨0, txt⟩ = parseLim txt :=
  (Classical.choose_spec (parse_answer_exists txt)).2

/-- whatever the interpreter answers at *any* budget is that answer -/
theorem Peg.eval_eq_parseLim (txt : List Char) (f : Nat) (h : evalRule Grammar.xdr f false "item" ⟨0, txt⟩ ≠ .outOfFuel) :
    evalRule Grammar.xdr f false "item" ⟨0, txt⟩ = parseLim txt := by
  obtain ⟨F, hF⟩ := parseLim_spec txt
  rw [← hF (max F f) (Nat.le_max_left _ _)]
  exact (Peg.evalRule_fuel_mono Grammar.xdr false "item" ⟨0, txt⟩ f (max F f) (Nat.le_max_right _ _) h).symm

theorem Peg.parseWith_eq_parseLim (txt : List Char) (h : parseWith Grammar.xdr "item" txt ≠ .outOfFuel) :
    parseWith Grammar.xdr "item" txt = parseLim txt := eval_eq_parseLim txt _ h

/-- a budget-free acceptance fact (`ROk`, Lemmas/PegRel) determines the answer -/
theorem Peg.parseLim_of_ROk {txt : List Char} {s' : St} {ts : List Pair}
    (h : ROk Grammar.xdr false "item" ⟨0, txt⟩ s' ts) : parseLim txt = .ok s' ts := by
  obtain ⟨f, hf⟩ := h
  rw [← eval_eq_parseLim txt f (by rw [hf]; simp), hf]

/-- **`Ast::new` without a budget**: the parser's answer, then `walk`, the constructors and the three indexes -/
noncomputable def Ast.newLim (txt : String) : FrontRes :=
  match Peg.parseLim txt.toList with
  | .fail => .err
  | .outOfFuel => .outOfFuel
  | .ok _ ps =>
    match Ast.ofPairs ps with
    | .ok a => .ok a
    | .panicAt f m => .panicAt f m

theorem Ast.newLim_ne_outOfFuel (txt : String) : Ast.newLim txt ≠ .outOfFuel := by
  unfold Ast.newLim
  have := Peg.parseLim_ne txt.toList
  cases h : Peg.parseLim txt.toList with
  | fail => simp
  | outOfFuel => exact absurd h this
  | ok s ps => simp only []; cases ho : Ast.ofPairs ps <;> simp

/-- the executable front end is the budget-free one wherever it answers -/
theorem Ast.new_eq_newLim (txt : String) (h : Ast.new txt ≠ .outOfFuel) : Ast.new txt = Ast.newLim txt := by
  unfold Ast.new Ast.newLim at *
  have hp : parseWith Grammar.xdr "item" txt.toList ≠ .outOfFuel := by
    intro e; rw [e] at h; exact h rfl
  rw [Peg.parseWith_eq_parseLim _ hp]
  rfl

/-- three-way outcome, with no fourth case: the front end answers Ok, Err, or panics — and then at a known site -/
theorem Ast.newLim_known_panics (txt : String) (f m : String) (h : Ast.newLim txt = .panicAt f m) : (f, m) ∈ knownSites := by
  unfold Ast.newLim at h
  obtain ⟨F, hF⟩ := Peg.parseLim_spec txt.toList
  cases hp : Peg.parseLim txt.toList with
  | fail => rw [hp] at h; cases h
  | outOfFuel => rw [hp] at h; cases h
  | ok s ps =>
    rw [hp] at h
    simp only at h
    have hs : Shape Grammar.xdr false (.ref "item") ps := by
      have := (Peg.shape Grammar.xdr F).2.2 "item" ⟨0, txt.toList⟩
      rw [hF F (Nat.le_refl _), hp] at this
      exact this
    have hg := ofPairs_good hs
    cases ho : Ast.ofPairs ps with
    | ok a => rw [ho] at h; cases h
    | panicAt f' m' =>
      rw [ho] at h hg
      cases h
      exact hg

end Fx
