/-
  Fx.Lemmas.ParseLeaf — the leaf tokens of the grammar regenerated from `src/xdr.pest`: identifiers, numbers, the
  built-in type spellings; where each of them is accepted and where it is rejected.
-/
import Fx.Lemmas.ParseLayout
namespace Fx.Parse
open Fx.Peg

def allIdent (n : List Char) : Bool := n.all isIdentChar
def allDigit (n : List Char) : Bool := n.all isAsciiDigit

theorem allIdent_mem {n : List Char} (h : allIdent n = true) : ∀ c ∈ n, isIdentChar c = true := by simpa [allIdent] using h

theorem digit_ident {c : Char} (h : isAsciiDigit c = true) : isIdentChar c = true := by simp [isIdentChar, isAsciiAlnum, h]

/-- text that starts with layout (or is layout followed by a non-identifier character) does not continue an identifier -/
theorem noIdent_of_ws {c : Char} {cs : List Char} (h : isWsChar c = true) : NoIdentStart (c :: cs) := by
  intro d hd; simp at hd; subst hd; exact ws_not_ident h

theorem noIdent_nil : NoIdentStart [] := by intro d hd; simp at hd

theorem noIdent_char {c : Char} {cs : List Char} (h : isIdentChar c = false) : NoIdentStart (c :: cs) := by
  intro d hd; simp at hd; subst hd; exact h

/-! ### the built-in spellings do not match inside or across an identifier -/

/-- a literal made of identifier characters, matched against `n ++ r` (`n` identifier characters, `r` not continuing an
    identifier), either fails, or is exactly `n`, or stops inside `n` -/
theorem matchStr_ident : ∀ (k n : List Char) (r : List Char) (p : Nat) (s' : St), allIdent k = true → allIdent n = true →
    NoIdentStart r → matchStr k ⟨p, n ++ r⟩ = some s' → n ≠ k → ∃ c cs, s'.rest = c :: cs ∧ isIdentChar c = true := by
  intro k
  induction k with
  | nil =>
    intro n r p s' _ hn _ hm hne
    simp only [matchStr, Option.some.injEq] at hm
    subst hm
    cases n with
    | nil => exact absurd rfl hne
    | cons c cs => exact ⟨c, cs ++ r, rfl, allIdent_mem hn c (by simp)⟩
  | cons kc k' ih =>
    intro n r p s' hk hn hr hm hne
    have hkc : isIdentChar kc = true := allIdent_mem hk kc (by simp)
    have hk' : allIdent k' = true := by simp [allIdent] at hk ⊢; exact hk.2
    cases n with
    | nil =>
      simp only [List.nil_append] at hm
      cases r with
      | nil => simp [matchStr] at hm
      | cons d ds =>
        have hd := hr d rfl
        have : ¬ (kc = d) := fun e => by subst e; rw [hkc] at hd; exact absurd hd (by simp)
        simp [matchStr, this] at hm
    | cons d n' =>
      have hn' : allIdent n' = true := by simp [allIdent] at hn ⊢; exact hn.2
      by_cases e : kc = d
      · subst e
        simp only [List.cons_append, matchStr, if_true] at hm
        exact ih n' r (p + 1) s' hk' hn' hr hm (fun e => hne (by rw [e]))
      · simp [matchStr, e] at hm

theorem find_bt : X.find "basic_type" = some ⟨"basic_type", .atomic,
    (.alt (.seq (.opt (.seq (.str ['u', 'n', 's', 'i', 'g', 'n', 'e', 'd']) (.plus (.ref "WHITESPACE"))))
                (.seq (.alt (.str ['i', 'n', 't']) (.str ['h', 'y', 'p', 'e', 'r'])) (.plus (.ref "WHITESPACE"))))
          (.seq (.alt (.str ['f', 'l', 'o', 'a', 't']) (.alt (.str ['d', 'o', 'u', 'b', 'l', 'e'])
                (.alt (.str ['s', 't', 'r', 'i', 'n', 'g']) (.str ['o', 'p', 'a', 'q', 'u', 'e']))))
                (.plus (.ref "WHITESPACE"))))⟩ := rfl

/-- the words `basic_type` starts with -/
def typeWords : List (List Char) :=
  [['u', 'n', 's', 'i', 'g', 'n', 'e', 'd'], ['i', 'n', 't'], ['h', 'y', 'p', 'e', 'r'], ['f', 'l', 'o', 'a', 't'],
   ['d', 'o', 'u', 'b', 'l', 'e'], ['s', 't', 'r', 'i', 'n', 'g'], ['o', 'p', 'a', 'q', 'u', 'e']]

/-- `k WHITESPACE+` is rejected in front of an identifier other than `k` (and in front of anything that is no identifier) -/
theorem word_ws_fail {k n r : List Char} {p : Nat} (hk : allIdent k = true) (hn : allIdent n = true) (hr : NoIdentStart r)
    (hne : n ≠ k) : EFail X true (.seq (.str k) (.plus (.ref "WHITESPACE"))) ⟨p, n ++ r⟩ := by
  cases hm : matchStr k ⟨p, n ++ r⟩ with
  | none => exact EFail.seq1 (EFail.str hm)
  | some s' =>
    obtain ⟨c, cs, hrest, hc⟩ := matchStr_ident k n r p s' hk hn hr hm hne
    refine EFail.seq2A (EOk.str hm) (EFail.plus (EFail.ref ?_))
    obtain ⟨q, rest⟩ := s'
    simp only at hrest
    subst hrest
    exact ws_fail (fun d hd => by simp at hd; subst hd; exact ident_not_ws hc)

/-- the same for a choice of words -/
theorem alt2_ws_fail {k1 k2 n r : List Char} {p : Nat} (h1 : allIdent k1 = true) (h2 : allIdent k2 = true) (hn : allIdent n = true)
    (hr : NoIdentStart r) (hne1 : n ≠ k1) (hne2 : n ≠ k2) :
    EFail X true (.seq (.alt (.str k1) (.str k2)) (.plus (.ref "WHITESPACE"))) ⟨p, n ++ r⟩ := by
  have wsf : ∀ s' : St, (∃ c cs, s'.rest = c :: cs ∧ isIdentChar c = true) → EFail X true (.plus (.ref "WHITESPACE")) s' := by
    rintro ⟨q, rest⟩ ⟨c, cs, hrest, hc⟩
    simp only at hrest
    subst hrest
    exact EFail.plus (EFail.ref (ws_fail (fun d hd => by simp at hd; subst hd; exact ident_not_ws hc)))
  cases hm1 : matchStr k1 ⟨p, n ++ r⟩ with
  | some s' => exact EFail.seq2A (EOk.alt1 (EOk.str hm1)) (wsf s' (matchStr_ident k1 n r p s' h1 hn hr hm1 hne1))
  | none =>
    cases hm2 : matchStr k2 ⟨p, n ++ r⟩ with
    | some s' =>
      exact EFail.seq2A (EOk.alt2 (EFail.str hm1) (EOk.str hm2)) (wsf s' (matchStr_ident k2 n r p s' h2 hn hr hm2 hne2))
    | none => exact EFail.seq1 (EFail.alt (EFail.str hm1) (EFail.str hm2))

theorem alt4_ws_fail {k1 k2 k3 k4 n r : List Char} {p : Nat} (h1 : allIdent k1 = true) (h2 : allIdent k2 = true)
    (h3 : allIdent k3 = true) (h4 : allIdent k4 = true) (hn : allIdent n = true)
    (hr : NoIdentStart r) (hne1 : n ≠ k1) (hne2 : n ≠ k2) (hne3 : n ≠ k3) (hne4 : n ≠ k4) :
    EFail X true (.seq (.alt (.str k1) (.alt (.str k2) (.alt (.str k3) (.str k4)))) (.plus (.ref "WHITESPACE"))) ⟨p, n ++ r⟩ := by
  have wsf : ∀ s' : St, (∃ c cs, s'.rest = c :: cs ∧ isIdentChar c = true) → EFail X true (.plus (.ref "WHITESPACE")) s' := by
    rintro ⟨q, rest⟩ ⟨c, cs, hrest, hc⟩
    simp only at hrest
    subst hrest
    exact EFail.plus (EFail.ref (ws_fail (fun d hd => by simp at hd; subst hd; exact ident_not_ws hc)))
  cases hm1 : matchStr k1 ⟨p, n ++ r⟩ with
  | some s' => exact EFail.seq2A (EOk.alt1 (EOk.str hm1)) (wsf s' (matchStr_ident k1 n r p s' h1 hn hr hm1 hne1))
  | none =>
    cases hm2 : matchStr k2 ⟨p, n ++ r⟩ with
    | some s' =>
      exact EFail.seq2A (EOk.alt2 (EFail.str hm1) (EOk.alt1 (EOk.str hm2))) (wsf s' (matchStr_ident k2 n r p s' h2 hn hr hm2 hne2))
    | none =>
      cases hm3 : matchStr k3 ⟨p, n ++ r⟩ with
      | some s' =>
        exact EFail.seq2A (EOk.alt2 (EFail.str hm1) (EOk.alt2 (EFail.str hm2) (EOk.alt1 (EOk.str hm3))))
          (wsf s' (matchStr_ident k3 n r p s' h3 hn hr hm3 hne3))
      | none =>
        cases hm4 : matchStr k4 ⟨p, n ++ r⟩ with
        | some s' =>
          exact EFail.seq2A (EOk.alt2 (EFail.str hm1) (EOk.alt2 (EFail.str hm2) (EOk.alt2 (EFail.str hm3) (EOk.str hm4))))
            (wsf s' (matchStr_ident k4 n r p s' h4 hn hr hm4 hne4))
        | none =>
          exact EFail.seq1 (EFail.alt (EFail.str hm1) (EFail.alt (EFail.str hm2) (EFail.alt (EFail.str hm3) (EFail.str hm4))))

/-- **`basic_type` is rejected** in front of identifier characters that do not spell one of its words, and in front of
    anything that is not an identifier at all (`n = []`) -/
theorem basic_type_fail {a : Bool} {n r : List Char} {p : Nat} (hn : allIdent n = true) (hr : NoIdentStart r)
    (hw : n ∉ typeWords) : RFail X a "basic_type" ⟨p, n ++ r⟩ := by
  simp only [typeWords, List.mem_cons, List.not_mem_nil, or_false, not_or] at hw
  obtain ⟨w1, w2, w3, w4, w5, w6, w7⟩ := hw
  refine RFail.atomic find_bt rfl rfl (EFail.alt ?_ ?_)
  · exact EFail.seq2A (EOk.opt_none (word_ws_fail rfl hn hr w1)) (alt2_ws_fail rfl rfl hn hr w2 w3)
  · exact alt4_ws_fail rfl rfl rfl rfl hn hr w4 w5 w6 w7

/-! ### identifiers -/

theorem find_ident : X.find "ident" = some ⟨"ident", .atomic,
    .seq (.not (.ref "basic_type")) (.plus (.alt .alnum (.str ['_'])))⟩ := rfl

def eIdChar : Expr := .alt .alnum (.str ['_'])

theorem idchar_ok {p : Nat} {c : Char} {cs : List Char} (h : isIdentChar c = true) : EOk X true eIdChar ⟨p, c :: cs⟩ ⟨p + 1, cs⟩ [] := by
  cases ha : isAsciiAlnum c with
  | true => exact EOk.alt1 (EOk.alnum ha)
  | false =>
    have : c = '_' := by simpa [isIdentChar, ha] using h
    subst this
    exact EOk.alt2 (EFail.alnum ha) (EOk.str (by simp [matchStr]))

theorem idchar_fail {p : Nat} {r : List Char} (h : NoIdentStart r) : EFail X true eIdChar ⟨p, r⟩ := by
  cases r with
  | nil => exact EFail.alt EFail.alnum_nil (EFail.str (by simp [matchStr]))
  | cons c cs =>
    have hc := h c rfl
    simp only [isIdentChar, Bool.or_eq_false_iff, beq_eq_false_iff_ne, ne_eq] at hc
    have : ¬ ('_' = c) := fun e => hc.2 e.symm
    exact EFail.alt (EFail.alnum hc.1) (EFail.str (by simp [matchStr, this]))

theorem idchars_rep : ∀ (n : List Char) (p : Nat) (r : List Char) (acc : List Pair), allIdent n = true → NoIdentStart r →
    RepOk X true eIdChar ⟨p, n ++ r⟩ acc ⟨p + n.length, r⟩ acc := by
  intro n
  induction n with
  | nil => intro p r acc _ hr; simpa using RepOk.stopA (idchar_fail hr)
  | cons c cs ih =>
    intro p r acc hn hr
    have hc := allIdent_mem hn c (by simp)
    have hcs : allIdent cs = true := by simp [allIdent] at hn ⊢; exact hn.2
    have e : p + (c :: cs).length = p + 1 + cs.length := by simp; omega
    rw [e]
    exact RepOk.stepA (t2 := []) (idchar_ok hc) (by simp) (by simpa using ih (p + 1) r acc hcs hr)

theorem idchars_plus {n r : List Char} {p : Nat} (hne : n ≠ []) (hn : allIdent n = true) (hr : NoIdentStart r) :
    EOk X true (.plus eIdChar) ⟨p, n ++ r⟩ ⟨p + n.length, r⟩ [] := by
  cases n with
  | nil => exact absurd rfl hne
  | cons c cs =>
    have hc := allIdent_mem hn c (by simp)
    have hcs : allIdent cs = true := by simp [allIdent] at hn ⊢; exact hn.2
    have e : p + (c :: cs).length = p + 1 + cs.length := by simp; omega
    rw [e]
    refine EOk.plus ?_
    have hstar : EOk X true (.star eIdChar) ⟨p + 1, cs ++ r⟩ ⟨p + 1 + cs.length, r⟩ [] := by
      cases cs with
      | nil => simpa using EOk.star_nil (idchar_fail (p := p + 1) hr)
      | cons d ds =>
        have hd := allIdent_mem hcs d (by simp)
        have hds : allIdent ds = true := by simp [allIdent] at hcs ⊢; exact hcs.2
        have e2 : p + 1 + (d :: ds).length = p + 1 + 1 + ds.length := by simp; omega
        rw [e2]
        exact EOk.star_cons (idchar_ok hd) (idchars_rep ds (p + 1 + 1) r [] hds hr)
    simpa using EOk.seqA (idchar_ok (p := p) (cs := cs ++ r) hc) hstar

/-- a name the grammar reads as one identifier: identifier characters, not one of the words of `basic_type` -/
def validIdent (n : List Char) : Bool := !n.isEmpty && allIdent n && !typeWords.contains n

theorem validIdent_iff {n : List Char} (h : validIdent n = true) : n ≠ [] ∧ allIdent n = true ∧ n ∉ typeWords := by
  simp only [validIdent, Bool.and_eq_true, Bool.not_eq_true', List.isEmpty_eq_false_iff] at h
  refine ⟨h.1.1, h.1.2, ?_⟩
  intro hm
  have : typeWords.contains n = true := List.contains_iff_mem.mpr hm
  rw [this] at h; exact absurd h.2 (by simp)

/-- **an identifier is one `ident` token** when what follows does not continue it -/
theorem ident_ok {n r : List Char} {p : Nat} (hv : validIdent n = true) (hr : NoIdentStart r) :
    ROk X false "ident" ⟨p, n ++ r⟩ ⟨p + n.length, r⟩ [Pair.mk "ident" n []] := by
  obtain ⟨hne, hn, hw⟩ := validIdent_iff hv
  have h := ROk.atomic (g := X) (n := "ident") (s := ⟨p, n ++ r⟩) (s' := ⟨p + n.length, r⟩) (ts := [] ++ []) find_ident rfl rfl
    (EOk.seqA (EOk.not (EFail.ref (basic_type_fail hn hr hw))) (idchars_plus hne hn hr))
  rwa [consumed_app] at h

/-- no identifier where the text does not start with an identifier character -/
theorem ident_fail {a : Bool} {r : List Char} {p : Nat} (hr : NoIdentStart r) : RFail X a "ident" ⟨p, r⟩ := by
  refine RFail.atomic find_ident rfl rfl ?_
  have hb : RFail X true "basic_type" ⟨p, [] ++ r⟩ := basic_type_fail rfl hr (by decide)
  exact EFail.seq2A (EOk.not (EFail.ref hb)) (EFail.plus (idchar_fail hr))

/-! ### numbers -/

theorem find_iv : X.find "ident_value" = some ⟨"ident_value", .atomic, .plus .digit⟩ := rfl
theorem find_ic : X.find "ident_const" = some ⟨"ident_const", .normal, .ref "ident"⟩ := rfl

def NoDigitStart (r : List Char) : Prop := ∀ c, r.head? = some c → isAsciiDigit c = false

theorem NoIdentStart.digit {r : List Char} (h : NoIdentStart r) : NoDigitStart r := by
  intro c hc
  cases hd : isAsciiDigit c with
  | false => rfl
  | true => have := h c hc; rw [digit_ident hd] at this; exact absurd this (by simp)

theorem digit_fail {p : Nat} {r : List Char} (h : NoDigitStart r) : EFail X true .digit ⟨p, r⟩ := by
  cases r with
  | nil => exact EFail.digit_nil
  | cons c cs => exact EFail.digit (h c rfl)

theorem digits_rep : ∀ (n : List Char) (p : Nat) (r : List Char) (acc : List Pair), allDigit n = true → NoDigitStart r →
    RepOk X true .digit ⟨p, n ++ r⟩ acc ⟨p + n.length, r⟩ acc := by
  intro n
  induction n with
  | nil => intro p r acc _ hr; simpa using RepOk.stopA (digit_fail hr)
  | cons c cs ih =>
    intro p r acc hn hr
    have hc : isAsciiDigit c = true := by simp [allDigit] at hn; exact hn.1
    have hcs : allDigit cs = true := by simp [allDigit] at hn ⊢; exact hn.2
    have e : p + (c :: cs).length = p + 1 + cs.length := by simp; omega
    rw [e]
    exact RepOk.stepA (t2 := []) (EOk.digit hc) (by simp) (by simpa using ih (p + 1) r acc hcs hr)

/-- **a run of digits is one `ident_value` token** -/
theorem value_ok {n r : List Char} {p : Nat} (hne : n ≠ []) (hn : allDigit n = true) (hr : NoDigitStart r) :
    ROk X false "ident_value" ⟨p, n ++ r⟩ ⟨p + n.length, r⟩ [Pair.mk "ident_value" n []] := by
  cases n with
  | nil => exact absurd rfl hne
  | cons c cs =>
    have hc : isAsciiDigit c = true := by simp [allDigit] at hn; exact hn.1
    have hcs : allDigit cs = true := by simp [allDigit] at hn ⊢; exact hn.2
    have hstar : EOk X true (.star .digit) ⟨p + 1, cs ++ r⟩ ⟨p + 1 + cs.length, r⟩ [] := by
      cases cs with
      | nil => simpa using EOk.star_nil (digit_fail (p := p + 1) hr)
      | cons d ds =>
        have hd : isAsciiDigit d = true := by simp [allDigit] at hcs; exact hcs.1
        have hds : allDigit ds = true := by simp [allDigit] at hcs ⊢; exact hcs.2
        have e2 : p + 1 + (d :: ds).length = p + 1 + 1 + ds.length := by simp; omega
        rw [e2]
        exact EOk.star_cons (EOk.digit hd) (digits_rep ds (p + 1 + 1) r [] hds hr)
    have e : p + (c :: cs).length = p + 1 + cs.length := by simp; omega
    have h := ROk.atomic (g := X) (n := "ident_value") (s := ⟨p, (c :: cs) ++ r⟩) (s' := ⟨p + 1 + cs.length, r⟩) (ts := [] ++ [])
      find_iv rfl rfl (EOk.plus (EOk.seqA (EOk.digit (p := p) (cs := cs ++ r) hc) hstar))
    rw [consumed_app' p (p + 1 + cs.length) (c :: cs) r e.symm] at h
    rw [e]; exact h

theorem value_fail {a : Bool} {r : List Char} {p : Nat} (hr : NoDigitStart r) : RFail X a "ident_value" ⟨p, r⟩ :=
  RFail.atomic find_iv rfl rfl (EFail.plus (digit_fail hr))

/-- a bound or a case label: a number, or a name that does not start with a digit -/
inductive Lit where
  | num (ds : List Char)
  | name (n : List Char)
deriving Repr

def Lit.text : Lit → List Char
  | .num d => d
  | .name n => n

def Lit.ok : Lit → Bool
  | .num d => !d.isEmpty && allDigit d
  | .name n => validIdent n && (match n with | c :: _ => !isAsciiDigit c | [] => false)

def Lit.tokens : Lit → List Pair
  | .num d => [Pair.mk "ident_value" d []]
  | .name n => [Pair.mk "ident_const" n [Pair.mk "ident" n []]]

/-- `ident_value | ident_const` (the body of `array_length` and of `union_case_value`) -/
theorem lit_ok (l : Lit) {r : List Char} {p : Nat} (hl : l.ok = true) (hr : NoIdentStart r) :
    EOk X false (.alt (.ref "ident_value") (.ref "ident_const")) ⟨p, l.text ++ r⟩ ⟨p + l.text.length, r⟩ l.tokens := by
  cases l with
  | num d =>
    simp only [Lit.ok, Bool.and_eq_true, Bool.not_eq_true', List.isEmpty_eq_false_iff] at hl
    exact EOk.alt1 (EOk.ref (value_ok hl.1 hl.2 hr.digit))
  | name n =>
    simp only [Lit.ok, Bool.and_eq_true] at hl
    obtain ⟨hv, hd⟩ := hl
    cases n with
    | nil => simp at hd
    | cons c cs =>
      simp only [Bool.not_eq_true'] at hd
      have hf : RFail X false "ident_value" ⟨p, (c :: cs) ++ r⟩ := value_fail (fun d hd' => by simp at hd'; subst hd'; exact hd)
      have hi := ident_ok (p := p) hv hr
      have hc := ROk.normal (g := X) (n := "ident_const") find_ic rfl rfl (EOk.ref hi)
      rw [consumed_app] at hc
      exact EOk.alt2 (EFail.ref hf) (EOk.ref hc)

end Fx.Parse
