/-
  Fx.Lemmas.Local — locality: a successful decode is determined by the bytes it consumed.
  If a decoder succeeds on a buffer, consuming the prefix `pre`, it returns the same value (and
  stops at the same place) on every buffer that starts with `pre`, whatever follows.
  Allocation logs may differ (the reservation of `read_variable_array` looks at `remaining()`).
-/
import Fx.Eval
import Fx.Lemmas.Runtime
import Fx.Lemmas.Advance
import Fx.Lemmas.Consumed
namespace Fx

/-- `f` is local -/
def Loc {α} (f : Cur → Res α) : Prop :=
  ∀ c v c', f c = .ok v c' → ∃ pre, c.data = pre ++ c'.data ∧ c'.off = c.off + pre.length ∧
    ∀ (s2 : List Byte) (l2 : List Ev), ∃ l2', f ⟨c.off, pre ++ s2, l2⟩ = .ok v ⟨c'.off, s2, l2'⟩

theorem Loc.congr {α} {f g : Cur → Res α} (h : ∀ c, f c = g c) (hg : Loc g) : Loc f := by
  have : f = g := funext h
  rw [this]; exact hg

theorem Loc.bind {α β} {f : Cur → Res α} {g : α → Cur → Res β} (hf : Loc f) (hg : ∀ v, Loc (g v)) :
    Loc (fun c => (f c).bind g) := by
  intro c w c2 h
  obtain ⟨v, c1, h1, h2⟩ := Res.bind_eq_ok h
  obtain ⟨pre1, d1, o1, r1⟩ := hf c v c1 h1
  obtain ⟨pre2, d2, o2, r2⟩ := hg v c1 w c2 h2
  refine ⟨pre1 ++ pre2, by rw [d1, d2, List.append_assoc], by simp [o2, o1, Nat.add_assoc], ?_⟩
  intro s2 l2
  obtain ⟨l1', e1⟩ := r1 (pre2 ++ s2) l2
  obtain ⟨l2', e2⟩ := r2 s2 l1'
  refine ⟨l2', ?_⟩
  simp only [List.append_assoc, e1, Res.bind_ok]
  exact e2

theorem Loc.pure {α} (v : α) : Loc (fun c => Res.ok v c) := by
  intro c w c' h
  cases h
  exact ⟨[], by simp, by simp, fun s2 l2 => ⟨l2, by simp⟩⟩

theorem Loc.pureLog {α} (v : α) (e : Cur → Ev) : Loc (fun c => Res.ok v (c.addLog (e c))) := by
  intro c w c' h
  cases h
  exact ⟨[], by simp [Cur.addLog], by simp [Cur.addLog], fun s2 l2 => ⟨_, by simp [Cur.addLog]; rfl⟩⟩

theorem Loc.fail {α} (r : Cur → Res α) (h : ∀ c v c', r c ≠ .ok v c') : Loc r := by
  intro c v c' e
  exact absurd e (h c v c')

theorem Loc.map {α β} {f : Cur → Res α} (g : α → β) (hf : Loc f) : Loc (fun c => (f c).map g) := by
  intro c w c' h
  obtain ⟨v, h1, h2⟩ := Res.map_eq_ok h
  obtain ⟨pre, d, o, r⟩ := hf c v c' h1
  refine ⟨pre, d, o, fun s2 l2 => ?_⟩
  obtain ⟨l', e⟩ := r s2 l2
  exact ⟨l', by simp [Res.map, e, Res.bind_ok, h2]⟩

/-- a test that does not look at the cursor -/
theorem Loc.ite {α} {f g : Cur → Res α} (b : Prop) [Decidable b] (hf : Loc f) (hg : Loc g) :
    Loc (fun c => if b then f c else g c) := by
  by_cases hb : b
  · simpa [hb] using hf
  · simpa [hb] using hg

/-! ### the readers -/

theorem readU32_loc : Loc readU32 := by
  intro c n c' h
  obtain ⟨e, l, _, _⟩ := readU32_ok h
  obtain ⟨off, data, log⟩ := c
  subst e
  simp only [Cur.remaining_mk] at l
  match data, l, h with
  | a :: b :: x :: d :: rest, _, h =>
    rw [readU32_cons] at h
    cases h
    refine ⟨[a, b, x, d], by simp [Cur.advance], by simp [Cur.advance], fun s2 l2 => ⟨l2, ?_⟩⟩
    simp [readU32_cons, Cur.advance]

theorem readU64_loc : Loc readU64 := by
  intro c n c' h
  obtain ⟨e, l⟩ := readU64_ok h
  obtain ⟨off, data, log⟩ := c
  subst e
  simp only [Cur.remaining_mk] at l
  match data, l, h with
  | a :: b :: x :: d :: e :: f :: g :: i :: rest, _, h =>
    have h' : ∀ (o : Nat) (s : List Byte) (lg : List Ev), readU64 ⟨o, a :: b :: x :: d :: e :: f :: g :: i :: s, lg⟩ =
        .ok (word32 a b x d * 2^32 + word32 e f g i) ⟨o + 8, s, lg⟩ := by
      intro o s lg; simp [readU64, getU64P, Cur.advance]
    rw [h'] at h
    injection h with hn _
    subst hn
    refine ⟨[a, b, x, d, e, f, g, i], by simp [Cur.advance], by simp [Cur.advance], fun s2 l2 => ⟨l2, ?_⟩⟩
    simp [h', Cur.advance]

theorem readI32_loc : Loc readI32 := Loc.map _ readU32_loc
theorem readI64_loc : Loc readI64 := Loc.map _ readU64_loc

theorem readBool_loc : Loc readBool := by
  refine Loc.bind readI32_loc (fun i => ?_)
  by_cases h0 : i = 0
  · simpa [h0] using Loc.pure false
  · by_cases h1 : i = 1
    · simpa [h0, h1] using Loc.pure true
    · refine Loc.fail _ (fun c v c' => ?_)
      simp [h0, h1]

theorem readBytes_loc (n : Nat) : Loc (readBytes n) := by
  intro c v c' h
  obtain ⟨l, hv, e⟩ := readBytes_ok h
  subst e
  simp only [Cur.remaining] at l
  have hlen : (c.data.take (n + padLen n)).length = n + padLen n := by simp; omega
  refine ⟨c.data.take (n + padLen n), by simp, by simp [hlen], fun s2 l2 => ⟨l2, ?_⟩⟩
  rw [readBytes_enough _ _ (by simp [Cur.remaining]; omega)]
  subst hv
  have e1 : (c.data.take (n + padLen n) ++ s2).take n = c.data.take n := by
    rw [List.take_append_of_le_length (by omega), List.take_take]
    congr 1; omega
  have e2 : (c.data.take (n + padLen n) ++ s2).drop (n + padLen n) = s2 := by
    rw [List.drop_append_of_le_length (by omega), List.drop_eq_nil_of_le (by omega)]
    simp
  simp [Cur.advance, e1, e2]

theorem readVariableBytes_loc (m : Option Nat) : Loc (readVariableBytes m) := by
  refine Loc.bind readU32_loc (fun n => ?_)
  cases h : overLimit m n
  · simpa [h] using readBytes_loc n
  · refine Loc.fail _ (fun c v c' => ?_)
    simp [h]

theorem readString_loc (m : Option Nat) : Loc (readString m) := by
  refine Loc.bind (readVariableBytes_loc m) (fun b => ?_)
  by_cases h : utf8Valid (payloadOf b) = true
  · simp only [h, if_true]
    exact Loc.pureLog _ _
  · refine Loc.fail _ (fun c v c' => ?_)
    simp [h]

theorem readPrim_loc (p : Prim) : Loc (readPrim p) := by
  cases p
  · exact Loc.congr (g := fun c => (readU32 c).map Val.u32) (fun c => rfl) (Loc.map _ readU32_loc)
  · exact Loc.congr (g := fun c => (readU64 c).map Val.u64) (fun c => rfl) (Loc.map _ readU64_loc)
  · exact Loc.congr (g := fun c => (readI32 c).map Val.i32) (fun c => rfl) (Loc.map _ readI32_loc)
  · exact Loc.congr (g := fun c => (readI64 c).map Val.i64) (fun c => rfl) (Loc.map _ readI64_loc)
  · exact Loc.congr (g := fun c => (readU32 c).map Val.f32) (fun c => rfl) (Loc.map _ readU32_loc)
  · exact Loc.congr (g := fun c => (readU64 c).map Val.f64) (fun c => rfl) (Loc.map _ readU64_loc)
  · exact Loc.congr (g := fun c => (readBool c).map Val.bool) (fun c => rfl) (Loc.map _ readBool_loc)

/-- logging first does not matter -/
theorem Loc.preLog {α} {f : Cur → Res α} (e : Cur → Ev) (hf : Loc f) : Loc (fun c => f (c.addLog (e c))) := by
  intro c v c' h
  obtain ⟨pre, d, o, r⟩ := hf _ v c' h
  refine ⟨pre, d, o, fun s2 l2 => ?_⟩
  obtain ⟨l', e'⟩ := r s2 (l2 ++ [e ⟨c.off, pre ++ s2, l2⟩])
  exact ⟨l', e'⟩

/-- skipping `k` padding bytes -/
theorem skip_loc {α} (k : Nat) (v : α) :
    Loc (fun c3 => if c3.remaining < k then Res.err .invalidLength c3.log
                   else (advanceP k c3).bind fun _ c4 => Res.ok v c4) := by
  intro c w c' h
  simp only at h
  split at h
  · cases h
  · rename_i hk
    simp only [advanceP, hk, if_false, Res.bind_ok] at h
    cases h
    simp only [Cur.remaining] at hk
    have hlen : (c.data.take k).length = k := by simp; omega
    refine ⟨c.data.take k, by simp, by simp [hlen], fun s2 l2 => ⟨l2, ?_⟩⟩
    have hk2 : ¬ (Cur.mk c.off (c.data.take k ++ s2) l2).remaining < k := by simp [Cur.remaining]; omega
    simp only [hk2, if_false, advanceP, Res.bind_ok]
    have e2 : (c.data.take k ++ s2).drop k = s2 := by
      rw [List.drop_append_of_le_length (by omega), List.drop_eq_nil_of_le (by omega)]
      simp
    simp [Cur.advance, e2]

/-- the element loop: local when the element decoder is local and consumes exactly what `ws` reports -/
theorem arrLoop_loc (dec : Cur → Res Val) (ws : Val → Nat) (hd : Loc dec)
    (hx : ∀ c t c', dec c = .ok t c' → c'.off = c.off + ws t) :
    ∀ (k sum : Nat) (acc : Vals), Loc (fun c => arrLoop dec ws k c sum acc) := by
  intro k
  induction k with
  | zero =>
    intro sum acc
    exact Loc.congr (g := fun c => Res.ok (acc, sum) c) (fun c => by simp [arrLoop]) (Loc.pure _)
  | succ k ih =>
    intro sum acc c r c3 h
    simp only [arrLoop] at h
    split at h
    · rename_i t ct hdec
      split at h
      · cases h
      · rename_i hlt
        obtain ⟨pe, de, oe, re⟩ := hd c t ct hdec
        have hws : pe.length = ws t := by have := hx c t ct hdec; omega
        have hc1 : (Cur.mk (c.off + ws t) (c.data.drop (ws t)) ct.log) = ⟨c.off + ws t, ct.data, ct.log⟩ := by
          rw [de, ← hws]; simp
        have h' : arrLoop dec ws k ⟨c.off + ws t, ct.data, ct.log⟩ (sum + ws t) (acc.snoc t) = .ok r c3 := by
          rw [← hc1]; exact h
        obtain ⟨p2, d2, o2, r2⟩ := ih (sum + ws t) (acc.snoc t) _ r c3 h'
        simp only at d2 o2 r2
        refine ⟨pe ++ p2, by rw [de, d2, List.append_assoc], by simp [o2, hws]; omega, fun s2 l2 => ?_⟩
        obtain ⟨l1', e1⟩ := re (p2 ++ s2) l2
        obtain ⟨l2', e2⟩ := r2 s2 l1'
        refine ⟨l2', ?_⟩
        simp only [arrLoop, List.append_assoc, e1]
        have hrem : ¬ (Cur.mk c.off (pe ++ (p2 ++ s2)) l2).remaining < ws t := by simp [Cur.remaining]; omega
        simp only [hrem, if_false]
        have hadv : ({ (Cur.mk c.off (pe ++ (p2 ++ s2)) l2).advance (ws t) with log := l1' } : Cur) = ⟨c.off + ws t, p2 ++ s2, l1'⟩ := by
          simp only [Cur.advance, ← hws]; simp
        rw [hadv]
        exact e2
    · cases h
    · cases h
    · cases h
    · cases h

theorem readVariableArray_loc (dec : Cur → Res Val) (ws : Val → Nat) (m : Option Nat) (hd : Loc dec)
    (hx : ∀ c t c', dec c = .ok t c' → c'.off = c.off + ws t) : Loc (readVariableArray dec ws m) := by
  refine Loc.bind readU32_loc (fun n => ?_)
  cases h : overLimit m n
  · simp only [Bool.false_eq_true, if_false]
    refine Loc.bind (f := fun c1 => arrLoop dec ws n (c1.addLog (Ev.vec (min n c1.remaining))) 0 .nil) ?_ (fun os => ?_)
    · exact Loc.preLog (f := fun c => arrLoop dec ws n c 0 .nil) (fun c1 => Ev.vec (min n c1.remaining)) (arrLoop_loc dec ws hd hx n 0 .nil)
    · exact skip_loc (padLen os.2) (Val.vec os.1)
  · refine Loc.fail _ (fun c v c' => ?_)
    simp

/-- **locality of every evaluator** (all bytes; plans whose size impls are exact): the result of a successful decode is a
    function of the bytes it consumed -/
theorem eval_local (a : Ast) (p : Plans) (hp : p.SizeExact' = true) (fuel : Nat) :
    (∀ n, Loc (evalImpl a p fuel n)) ∧
    (∀ b, Loc (evalBasic a p fuel b)) ∧
    (∀ fd, Loc (evalField a p fuel fd)) ∧
    (∀ k b, Loc (evalRepeat a p fuel k b)) ∧
    (∀ fs, Loc (evalFields a p fuel fs)) := by
  induction fuel with
  | zero =>
    refine ⟨?_, ?_, ?_, ?_, ?_⟩ <;> intros <;> refine Loc.fail _ (fun c v c' => ?_) <;>
      simp [evalImpl, evalBasic, evalField, evalRepeat, evalFields]
  | succ f ih =>
    obtain ⟨ihI, ihB, ihF, ihR, ihFs⟩ := ih
    have hcons := (eval_consumed a p hp f).1
    refine ⟨?_, ?_, ?_, ?_, ?_⟩
    · intro n
      cases hfi : p.findImpl n with
      | none => exact Loc.fail _ (fun c v c' => by simp [evalImpl, hfi])
      | some i =>
        cases hb : i.body with
        | struct fs =>
          refine Loc.congr (g := fun c => (evalFields a p f fs c).bind fun vs c' => .ok (.struct n (fs.map fieldNameOf) vs) c')
            (fun c => by simp [evalImpl, hfi, hb]) (Loc.bind (ihFs fs) (fun vs => Loc.pure _))
        | union u =>
          refine Loc.congr (g := fun c => (evalBasic a p f u.disc c).bind fun d c1 =>
              (match selectArm a d u.arms with
               | some arm =>
                 (match arm.payload with
                  | some fd => (evalField a p f fd c1).bind fun v c2 => .ok (.tuple n (nonDigitName arm.variant) v) c2
                  | none => .ok (.unit n (nonDigitName arm.variant)) c1)
               | none =>
                 (match u.tail with
                  | .defaultData fd => (evalField a p f fd c1).bind fun v c2 => .ok (.tuple n "default" v) c2
                  | .errUnknown => .err (.unknownVariant (asI32 a d)) c1.log
                  | .none => .panic "non-exhaustive match")))
            (fun c => by simp only [evalImpl, hfi, hb]; rfl) (Loc.bind (ihB u.disc) (fun d => ?_))
          cases hsel : selectArm a d u.arms with
          | some arm =>
            dsimp only
            cases hpl : arm.payload with
            | some fd => dsimp only; exact Loc.bind (ihF fd) (fun v => Loc.pure _)
            | none => dsimp only; exact Loc.pure _
          | none =>
            dsimp only
            cases ht : u.tail with
            | defaultData fd => exact Loc.bind (ihF fd) (fun v => Loc.pure _)
            | errUnknown => exact Loc.fail _ (fun c v c' => by simp)
            | none => exact Loc.fail _ (fun c v c' => by simp)
        | enum arms =>
          refine Loc.congr (g := fun c => (readI32 c).bind fun i c1 =>
              (match selectEnum a (.i32 i) arms with
               | some m => .ok (.cenum n m) c1
               | none => .err (.unknownVariant i) c1.log))
            (fun c => by simp only [evalImpl, hfi, hb]; rfl) (Loc.bind readI32_loc (fun i => ?_))
          cases hsel : selectEnum a (.i32 i) arms with
          | some m => dsimp only; exact Loc.pure _
          | none => dsimp only; exact Loc.fail _ (fun c v c' => by simp)
        | typedef fd =>
          refine Loc.congr (g := fun c => (evalField a p f fd c).bind fun v c' => .ok (.newtype n v) c')
            (fun c => by simp [evalImpl, hfi, hb]) (Loc.bind (ihF fd) (fun v => Loc.pure _))
    · intro b
      match b with
      | .prim pr => exact Loc.congr (fun c => by simp [evalBasic]) (readPrim_loc pr)
      | .string => exact Loc.congr (fun c => by simp [evalBasic]) (readString_loc none)
      | .opaque => exact Loc.congr (fun c => by simp [evalBasic]) (readVariableBytes_loc none)
      | .tryFrom n => exact Loc.congr (fun c => by simp [evalBasic]) (ihI n)
    · intro fd
      cases fd with
      | one b => exact Loc.congr (fun c => by simp [evalField]) (ihB b)
      | fixedBytes n => exact Loc.congr (fun c => by simp [evalField]) (readBytes_loc n)
      | fixedArr n b =>
        exact Loc.congr (g := fun c => (evalRepeat a p f n b c).bind fun vs c' => .ok (.arr vs) c')
          (fun c => by simp [evalField]) (Loc.bind (ihR n b) (fun vs => Loc.pure _))
      | varBytes m => exact Loc.congr (fun c => by simp [evalField]) (readVariableBytes_loc m)
      | varString m => exact Loc.congr (fun c => by simp [evalField]) (readString_loc m)
      | varArr ty g m =>
        refine Loc.congr (fun c => by simp [evalField]) (readVariableArray_loc (evalImpl a p f ty) (wsVal p) m (ihI ty) ?_)
        intro c t c' h
        exact (hcons ty c t c' h).2.1
    · intro k b
      cases k with
      | zero => exact Loc.congr (g := fun c => Res.ok Vals.nil c) (fun c => by simp [evalRepeat]) (Loc.pure _)
      | succ k =>
        exact Loc.congr (g := fun c => (evalBasic a p f b c).bind fun v c1 =>
            (evalRepeat a p f k b c1).bind fun vs c2 => .ok (.cons v vs) c2)
          (fun c => by simp [evalRepeat]) (Loc.bind (ihB b) (fun v => Loc.bind (ihR k b) (fun vs => Loc.pure _)))
    · intro fs
      cases fs with
      | nil => exact Loc.congr (g := fun c => Res.ok Vals.nil c) (fun c => by simp [evalFields]) (Loc.pure _)
      | cons fld rest =>
        cases fld with
        | plain nm fd =>
          exact Loc.congr (g := fun c => (evalField a p f fd c).bind fun v c' =>
              (evalFields a p f rest c').bind fun vs c'' => .ok (.cons v vs) c'')
            (fun c => by simp [evalFields]) (Loc.bind (ihF fd) (fun v => Loc.bind (ihFs rest) (fun vs => Loc.pure _)))
        | optional nm ty =>
          refine Loc.congr (g := fun c => ((readU32 c).bind fun m c1 =>
                if m = 0 then .ok .none c1
                else if m = 1 then (evalImpl a p f ty c1).bind fun v c2 => .ok (.some v) (c2.addLog .box)
                else .err (.unknownOptionVariant m) c1.log).bind fun v c' =>
              (evalFields a p f rest c').bind fun vs c'' => .ok (.cons v vs) c'')
            (fun c => by simp [evalFields]) (Loc.bind (Loc.bind readU32_loc (fun m => ?_)) (fun v => Loc.bind (ihFs rest) (fun vs => Loc.pure _)))
          by_cases h0 : m = 0
          · simpa [h0] using Loc.pure Val.none
          · by_cases h1 : m = 1
            · simp only [h1, if_true]
              exact Loc.bind (ihI ty) (fun v => Loc.pureLog _ (fun _ => .box))
            · exact Loc.fail _ (fun c v c' => by simp [h0, h1])

end Fx
