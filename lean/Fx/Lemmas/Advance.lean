/-
  Fx.Lemmas.Advance — cursor discipline: a successful decode leaves the cursor at the same
  buffer, advanced by some k ≤ remaining; the bytes after it are untouched.
-/
import Fx.Eval
import Fx.Lemmas.Runtime
namespace Fx

/-- `c'` is `c` advanced by `k` bytes (the allocation log is free) -/
def Adv (c c' : Cur) : Prop := ∃ k, k ≤ c.remaining ∧ c'.off = c.off + k ∧ c'.data = c.data.drop k

theorem Adv.refl (c : Cur) : Adv c c := ⟨0, Nat.zero_le _, by simp, by simp⟩

theorem Adv.trans {a b c : Cur} (h1 : Adv a b) (h2 : Adv b c) : Adv a c := by
  obtain ⟨k1, l1, o1, d1⟩ := h1
  obtain ⟨k2, l2, o2, d2⟩ := h2
  refine ⟨k1 + k2, ?_, by omega, by rw [d2, d1, List.drop_drop]⟩
  simp only [Cur.remaining] at *
  rw [d1] at l2
  simp at l2
  omega

theorem Adv.addLog {a b : Cur} (h : Adv a b) (e : Ev) : Adv a (b.addLog e) := h

theorem Adv.of_advance (c : Cur) (k : Nat) (h : k ≤ c.remaining) : Adv c (c.advance k) :=
  ⟨k, h, rfl, rfl⟩

theorem Adv.remaining_le {a b : Cur} (h : Adv a b) : b.remaining ≤ a.remaining := by
  obtain ⟨k, _, _, d⟩ := h
  simp [Cur.remaining, d]

theorem Res.bind_eq_ok {α β} {r : Res α} {f : α → Cur → Res β} {b c}
    (h : r.bind f = .ok b c) : ∃ a c', r = .ok a c' ∧ f a c' = .ok b c := by
  cases r with
  | ok a c' => exact ⟨a, c', rfl, h⟩
  | err e l => cases h
  | panic s => cases h
  | abort => cases h
  | outOfFuel => cases h

theorem Res.map_eq_ok {α β} {r : Res α} {g : α → β} {b c} (h : r.map g = .ok b c) :
    ∃ a, r = .ok a c ∧ g a = b := by
  obtain ⟨a, c', h1, h2⟩ := Res.bind_eq_ok h
  cases h2
  exact ⟨a, h1, rfl⟩

theorem readU32_adv {c n c'} (h : readU32 c = .ok n c') : Adv c c' := by
  obtain ⟨e, l, _, _⟩ := readU32_ok h
  rw [e]; exact Adv.of_advance c 4 l

theorem readU64_ok {c : Cur} {n : Nat} {c' : Cur} (h : readU64 c = .ok n c') : c' = c.advance 8 ∧ 8 ≤ c.remaining := by
  unfold readU64 at h
  split at h
  · cases h
  · rename_i hlt
    unfold getU64P at h
    split at h
    · cases h; exact ⟨rfl, by omega⟩
    · cases h

theorem readU64_adv {c n c'} (h : readU64 c = .ok n c') : Adv c c' := by
  obtain ⟨e, l⟩ := readU64_ok h
  rw [e]; exact Adv.of_advance c 8 l

theorem readI32_adv {c n c'} (h : readI32 c = .ok n c') : Adv c c' := by
  obtain ⟨a, h1, _⟩ := Res.map_eq_ok h; exact readU32_adv h1

theorem readI64_adv {c n c'} (h : readI64 c = .ok n c') : Adv c c' := by
  obtain ⟨a, h1, _⟩ := Res.map_eq_ok h; exact readU64_adv h1

theorem readBool_adv {c b c'} (h : readBool c = .ok b c') : Adv c c' := by
  unfold readBool at h
  obtain ⟨i, c1, h1, h2⟩ := Res.bind_eq_ok h
  have := readI32_adv h1
  split at h2
  · cases h2; exact this
  · split at h2
    · cases h2; exact this
    · cases h2

theorem readBytes_ok {n : Nat} {c : Cur} {v : Val} {c' : Cur} (h : readBytes n c = .ok v c') :
    n + padLen n ≤ c.remaining ∧ v = .bytes c.off (c.data.take n) ∧ c' = c.advance (n + padLen n) := by
  by_cases hs : c.remaining < n + padLen n
  · rw [readBytes_short n c hs] at h; cases h
  · rw [readBytes_enough n c (by omega)] at h
    cases h
    exact ⟨by omega, rfl, rfl⟩

theorem readBytes_adv {n c v c'} (h : readBytes n c = .ok v c') : Adv c c' := by
  obtain ⟨l, _, e⟩ := readBytes_ok h
  rw [e]; exact Adv.of_advance c _ l

theorem readVariableBytes_adv {m c v c'} (h : readVariableBytes m c = .ok v c') : Adv c c' := by
  unfold readVariableBytes at h
  obtain ⟨n, c1, h1, h2⟩ := Res.bind_eq_ok h
  split at h2
  · cases h2
  · exact (readU32_adv h1).trans (readBytes_adv h2)

theorem readString_adv {m c v c'} (h : readString m c = .ok v c') : Adv c c' := by
  unfold readString at h
  obtain ⟨b, c1, h1, h2⟩ := Res.bind_eq_ok h
  simp only at h2
  split at h2
  · cases h2; exact (readVariableBytes_adv h1).addLog _
  · cases h2

theorem readPrim_adv {p c v c'} (h : readPrim p c = .ok v c') : Adv c c' := by
  cases p <;> simp only [readPrim] at h <;> obtain ⟨a, h1, _⟩ := Res.map_eq_ok h
  · exact readU32_adv h1
  · exact readU64_adv h1
  · exact readI32_adv h1
  · exact readI64_adv h1
  · exact readU32_adv h1
  · exact readU64_adv h1
  · exact readBool_adv h1

theorem arrLoop_adv (dec : Cur → Res Val) (ws : Val → Nat) :
    ∀ (k : Nat) (c : Cur) (sum : Nat) (acc : Vals) (r : Vals × Nat) (c' : Cur),
      arrLoop dec ws k c sum acc = .ok r c' → Adv c c' := by
  intro k
  induction k with
  | zero => intro c sum acc r c' h; simp only [arrLoop] at h; cases h; exact Adv.refl c
  | succ k ih =>
    intro c sum acc r c' h
    simp only [arrLoop] at h
    split at h
    · rename_i t ct hdec
      split at h
      · cases h
      · rename_i hlt
        have h2 := ih _ _ _ _ _ h
        have h1 : Adv c { c.advance (ws t) with log := ct.log } :=
          ⟨ws t, by omega, rfl, rfl⟩
        exact h1.trans h2
    · cases h
    · cases h
    · cases h
    · cases h

theorem readVariableArray_adv {dec ws m c v c'} (h : readVariableArray dec ws m c = .ok v c') : Adv c c' := by
  unfold readVariableArray at h
  obtain ⟨n, c1, h1, h2⟩ := Res.bind_eq_ok h
  split at h2
  · cases h2
  · obtain ⟨⟨out, sum⟩, c3, h3, h4⟩ := Res.bind_eq_ok h2
    simp only at h4
    split at h4
    · cases h4
    · rename_i hlt
      obtain ⟨u, c4, h5, h6⟩ := Res.bind_eq_ok h4
      cases h6
      simp only [advanceP] at h5
      split at h5
      · cases h5
      · cases h5
        have a1 := readU32_adv h1
        have a2 : Adv c1 (c1.addLog (.vec (min n c1.remaining))) := Adv.refl c1
        have a3 := arrLoop_adv dec ws _ _ _ _ _ _ h3
        have a4 : Adv c3 (c3.advance (padLen sum)) := Adv.of_advance _ _ (by omega)
        exact a1.trans (a2.trans (a3.trans a4))

/-- every evaluator advances the cursor within the same buffer (for ALL byte strings and ALL plans) -/
theorem eval_adv (a : Ast) (p : Plans) (fuel : Nat) :
    (∀ n c v c', evalImpl a p fuel n c = .ok v c' → Adv c c') ∧
    (∀ b c v c', evalBasic a p fuel b c = .ok v c' → Adv c c') ∧
    (∀ fd c v c', evalField a p fuel fd c = .ok v c' → Adv c c') ∧
    (∀ k b c vs c', evalRepeat a p fuel k b c = .ok vs c' → Adv c c') ∧
    (∀ fs c vs c', evalFields a p fuel fs c = .ok vs c' → Adv c c') := by
  induction fuel with
  | zero => refine ⟨?_, ?_, ?_, ?_, ?_⟩ <;> intros <;> simp [evalImpl, evalBasic, evalField, evalRepeat, evalFields] at *
  | succ f ih =>
    obtain ⟨ihI, ihB, ihF, ihR, ihFs⟩ := ih
    refine ⟨?_, ?_, ?_, ?_, ?_⟩
    · intro n c v c' h
      simp only [evalImpl] at h
      split at h
      · cases h
      · split at h
        · obtain ⟨vs, c1, h1, h2⟩ := Res.bind_eq_ok h
          cases h2; exact ihFs _ _ _ _ h1
        · obtain ⟨d, c1, h1, h2⟩ := Res.bind_eq_ok h
          have a1 := ihB _ _ _ _ h1
          split at h2
          · split at h2
            · obtain ⟨v2, c2, h3, h4⟩ := Res.bind_eq_ok h2
              cases h4; exact a1.trans (ihF _ _ _ _ h3)
            · cases h2; exact a1
          · split at h2
            · obtain ⟨v2, c2, h3, h4⟩ := Res.bind_eq_ok h2
              cases h4; exact a1.trans (ihF _ _ _ _ h3)
            · cases h2
            · cases h2
        · obtain ⟨i, c1, h1, h2⟩ := Res.bind_eq_ok h
          split at h2
          · cases h2; exact readI32_adv h1
          · cases h2
        · obtain ⟨v2, c1, h1, h2⟩ := Res.bind_eq_ok h
          cases h2; exact ihF _ _ _ _ h1
    · intro b c v c' h
      match b, h with
      | .prim pr, h => simp only [evalBasic] at h; exact readPrim_adv h
      | .string, h => simp only [evalBasic] at h; exact readString_adv h
      | .opaque, h => simp only [evalBasic] at h; exact readVariableBytes_adv h
      | .tryFrom n, h => simp only [evalBasic] at h; exact ihI _ _ _ _ h
    · intro fd c v c' h
      cases fd with
      | one b => simp only [evalField] at h; exact ihB _ _ _ _ h
      | fixedBytes n => simp only [evalField] at h; exact readBytes_adv h
      | fixedArr n b =>
        simp only [evalField] at h
        obtain ⟨vs, c1, h1, h2⟩ := Res.bind_eq_ok h
        cases h2; exact ihR _ _ _ _ _ h1
      | varBytes m => simp only [evalField] at h; exact readVariableBytes_adv h
      | varString m => simp only [evalField] at h; exact readString_adv h
      | varArr ty g m => simp only [evalField] at h; exact readVariableArray_adv h
    · intro k b c vs c' h
      cases k with
      | zero => simp only [evalRepeat] at h; cases h; exact Adv.refl c
      | succ k =>
        simp only [evalRepeat] at h
        obtain ⟨v, c1, h1, h2⟩ := Res.bind_eq_ok h
        obtain ⟨vs2, c2, h3, h4⟩ := Res.bind_eq_ok h2
        cases h4
        exact (ihB _ _ _ _ h1).trans (ihR _ _ _ _ _ h3)
    · intro fs c vs c' h
      cases fs with
      | nil => simp only [evalFields] at h; cases h; exact Adv.refl c
      | cons fld rest =>
        simp only [evalFields] at h
        obtain ⟨v, c1, h1, h2⟩ := Res.bind_eq_ok h
        obtain ⟨vs2, c2, h3, h4⟩ := Res.bind_eq_ok h2
        cases h4
        refine Adv.trans ?_ (ihFs _ _ _ _ h3)
        cases fld with
        | plain nm fd => exact ihF _ _ _ _ h1
        | optional nm ty =>
          simp only at h1
          obtain ⟨m, cm, h5, h6⟩ := Res.bind_eq_ok h1
          have a1 := readU32_adv h5
          split at h6
          · cases h6; exact a1
          · split at h6
            · obtain ⟨v3, c3, h7, h8⟩ := Res.bind_eq_ok h6
              cases h8
              exact a1.trans ((ihI _ _ _ _ h7).addLog _)
            · cases h6

end Fx
