/-
  Fx.Lemmas.ParseSpec — whole specifications: a list of declarations with a layout before, between and after them is
  accepted by the `item` rule of the grammar regenerated from `src/xdr.pest`, and the token tree is the one the
  declarations determine.
-/
import Fx.Lemmas.ParseUnion
namespace Fx.Parse
open Fx.Peg

inductive Decl where
  | const (d : ConstD)
  | typedef (d : TypedefD)
  | enum (d : EnumD)
  | struct (d : StructD)
  | union (d : UnionD)
deriving Repr

def Decl.text : Decl → List Char
  | .const d => d.text | .typedef d => d.text | .enum d => d.text | .struct d => d.text | .union d => d.text

def Decl.ok : Decl → Bool
  | .const d => d.ok | .typedef d => d.ok | .enum d => d.ok | .struct d => d.ok | .union d => d.ok

def Decl.tokens : Decl → List Pair
  | .const d => d.tokens | .typedef d => d.tokens | .enum d => d.tokens | .struct d => d.tokens | .union d => d.tokens

def eDecl : Expr :=
  .alt (.ref "constant") (.alt (.ref "typedef") (.alt (.ref "enum_type") (.alt (.ref "struct_type") (.ref "union"))))

theorem find_item : X.find "item" = some ⟨"item", .normal, .seq .soi (.seq (.star eDecl) .eoi)⟩ := rfl

/-- the text does not start with the character `c` (in particular the empty text) -/
def NotStarts (c : Char) (r : List Char) : Prop := r.head? ≠ some c

theorem rej_const : Rej (.ref "constant") (NotStarts 'c') := Rej.normal find_constant rfl rfl (Rej.seq1 (Rej.str_head (c := 'c')))
theorem rej_typedef : Rej (.ref "typedef") (NotStarts 't') := Rej.normal find_typedef rfl rfl (Rej.seq1 (Rej.str_head (c := 't')))
theorem rej_enum : Rej (.ref "enum_type") (NotStarts 'e') := Rej.normal find_enum rfl rfl (Rej.seq1 (Rej.str_head (c := 'e')))
theorem rej_struct : Rej (.ref "struct_type") (NotStarts 's') := Rej.normal find_struct rfl rfl (Rej.seq1 (Rej.str_head (c := 's')))
theorem rej_union : Rej (.ref "union") (NotStarts 'u') := Rej.normal find_union rfl rfl (Rej.seq1 (Rej.str_head (c := 'u')))

theorem Acc.declOk (d : Decl) (h : d.ok = true) : Acc eDecl d.text d.tokens (fun _ => True) := by
  cases d with
  | const d => exact Acc.alt1 (Acc.constD d h)
  | typedef d =>
    exact Acc.alt2 rej_const (Acc.alt1 (Acc.typedefD d h)) (fun r _ => by simp [Decl.text, TypedefD.text, kwTypedef, NotStarts])
  | enum d =>
    exact Acc.alt2 rej_const (Acc.alt2 rej_typedef (Acc.alt1 (Acc.enumD d h))
      (fun r _ => by simp [Decl.text, EnumD.text, kwEnum, NotStarts])) (fun r _ => by simp [Decl.text, EnumD.text, kwEnum, NotStarts])
  | struct d =>
    exact Acc.alt2 rej_const (Acc.alt2 rej_typedef (Acc.alt2 rej_enum (Acc.alt1 (Acc.structD d h))
      (fun r _ => by simp [Decl.text, StructD.text, kwStruct, NotStarts])) (fun r _ => by simp [Decl.text, StructD.text, kwStruct, NotStarts]))
      (fun r _ => by simp [Decl.text, StructD.text, kwStruct, NotStarts])
  | union d =>
    exact Acc.alt2 rej_const (Acc.alt2 rej_typedef (Acc.alt2 rej_enum (Acc.alt2 rej_struct (Acc.unionD d h)
      (fun r _ => by simp [Decl.text, UnionD.text, kwUnion, NotStarts])) (fun r _ => by simp [Decl.text, UnionD.text, kwUnion, NotStarts]))
      (fun r _ => by simp [Decl.text, UnionD.text, kwUnion, NotStarts])) (fun r _ => by simp [Decl.text, UnionD.text, kwUnion, NotStarts])

theorem rej_decl_end : Rej eDecl (fun r => r = []) := by
  have nil : ∀ c, ∀ r : List Char, r = [] → NotStarts c r := fun c r hr => by subst hr; simp [NotStarts]
  exact Rej.alt (rej_const.mono (nil _)) (Rej.alt (rej_typedef.mono (nil _)) (Rej.alt (rej_enum.mono (nil _))
    (Rej.alt (rej_struct.mono (nil _)) (rej_union.mono (nil _)))))

theorem tokStart_decl {d : Decl} : TokStart d.text := by
  cases d with
  | const d => exact tokStart_cons (c := 'c') (by decide) (by decide)
  | typedef d => exact tokStart_cons (c := 't') (by decide) (by decide)
  | enum d => exact tokStart_cons (c := 'e') (by decide) (by decide)
  | struct d => exact tokStart_cons (c := 's') (by decide) (by decide)
  | union d => exact tokStart_cons (c := 'u') (by decide) (by decide)

/-- a specification: declarations, with a layout in front and after each -/
structure Spec where
  l0 : Layout
  decls : List (Decl × Layout)
deriving Repr

def declElem (dl : Decl × Layout) : Elem := ⟨dl.1.text, dl.1.tokens, dl.2⟩

def Spec.text (s : Spec) : List Char := s.l0.text ++ elemsText (s.decls.map declElem)
def Spec.ok (s : Spec) : Bool := s.l0.ok && s.decls.all (fun dl => dl.1.ok && dl.2.ok)
def Spec.children (s : Spec) : List Pair := elemToks (s.decls.map declElem) ++ [Pair.mk "EOI" [] []]
def Spec.root (s : Spec) : Pair := Pair.mk "item" s.text s.children

theorem Acc.eoi : Acc .eoi [] [Pair.mk "EOI" [] []] (fun r => r = []) := by
  intro p r hr; subst hr; exact EOk.eoi

theorem Acc.declsEnd (decls : List (Decl × Layout)) (hd : ∀ dl ∈ decls, (dl.1.ok && dl.2.ok) = true) :
    Acc (.seq (.star eDecl) .eoi) (elemsText (decls.map declElem)) (elemToks (decls.map declElem) ++ [Pair.mk "EOI" [] []])
      (fun r => r = []) := by
  cases hm : decls.map declElem with
  | nil =>
    have := Acc.seq0 (Acc.star_nil _ (fun r => r = []) rej_decl_end) Acc.eoi (fun r hr => by simpa using hr)
      (fun r hr => by subst hr; intro c hc; simp at hc)
    exact this.castT (by simp [elemsText]) (by simp [elemToks])
  | cons el els =>
    have hall : ∀ x ∈ el :: els, x.T ≠ [] ∧ x.L.ok = true ∧ Acc eDecl x.T x.TS (fun _ => True) ∧ ∀ y, NoLayoutStart (x.T ++ y) := by
      intro x hx
      rw [← hm] at hx
      obtain ⟨dl, hmem, rfl⟩ := List.mem_map.mp hx
      have hok := hd dl hmem
      simp only [Bool.and_eq_true] at hok
      obtain ⟨c, cs, e, _, _⟩ := tokStart_decl (d := dl.1)
      exact ⟨by simp [declElem, e], hok.2, Acc.declOk dl.1 hok.1, fun y => tokStart_decl.noLayout⟩
    have hnil : NoLayoutStart ([] : List Char) := by intro c hc; simp at hc
    have hok : ∀ r, r = [] → elemsOk eDecl r (el :: els) := fun r hr => by
      subst hr
      exact (elemsOk_of _ (fun _ => True) NoLayoutStart [] hnil (fun _ h => h) (fun _ _ _ _ => trivial) (el :: els) hall).1
    have hstar := Acc.star_els _ (fun r => r = []) (fun r hr => by subst hr; exact hnil) rej_decl_end el els hok
    have hLast : (lastLayout (el :: els)).ok = true := lastLayout_ok _ (fun x hx => (hall x hx).2.1)
    have := Acc.seq (lastLayout (el :: els)) hstar hLast Acc.eoi
      (fun r hr => ⟨[], rfl, by subst hr; simp⟩) (fun r hr => by subst hr; exact hnil)
    refine this.castT ?_ rfl
    have := starText_last els el []
    simpa using this

/-- **some recursion budget makes the parser accept the text of a well-formed specification, with this token tree** -/
theorem spec_parses (s : Spec) (h : s.ok = true) :
    ROk X false "item" ⟨0, s.text⟩ ⟨s.text.length, []⟩ [s.root] := by
  simp only [Spec.ok, Bool.and_eq_true, List.all_eq_true] at h
  obtain ⟨h0, hd0⟩ := h
  have hd : ∀ dl ∈ s.decls, (dl.1.ok && dl.2.ok) = true := fun dl hdl => by simpa using hd0 dl hdl
  have aRest := Acc.declsEnd s.decls hd (s.l0.text.length) [] rfl
  have hstart : NoLayoutStart (elemsText (s.decls.map declElem) ++ []) := by
    cases hdc : s.decls with
    | nil => intro c hc; simp [elemsText] at hc
    | cons dl dls => simpa [elemsText, declElem, List.append_assoc] using (tokStart_decl (d := dl.1)).noLayout (r := _)
  have S := skOk_layout s.l0 0 (elemsText (s.decls.map declElem) ++ []) h0 hstart
  have E := EOk.seq (EOk.soi (g := X) (a := false) (cs := s.l0.text ++ (elemsText (s.decls.map declElem) ++ []))) S
    (by simpa using aRest)
  have R := ROk.normal (g := X) (n := "item") find_item rfl rfl E
  have e1 : s.l0.text ++ (elemsText (s.decls.map declElem) ++ []) = s.text := by simp [Spec.text]
  have e2 : s.l0.text.length + (elemsText (s.decls.map declElem)).length = s.text.length := by simp [Spec.text]
  rw [e1, e2] at R
  have e3 : consumed ⟨0, s.text⟩ ⟨s.text.length, []⟩ = s.text := by
    have := consumed_app 0 s.text []
    simpa using this
  rw [e3] at R
  simpa [Spec.root, Spec.children] using R

/-- at the budget `parseWith` uses: the same answer, unless that budget is exhausted -/
theorem spec_parseWith (s : Spec) (h : s.ok = true) :
    parseWith X "item" s.text = .ok ⟨s.text.length, []⟩ [s.root] ∨ parseWith X "item" s.text = .outOfFuel := by
  by_cases hf : parseWith X "item" s.text = .outOfFuel
  · exact .inr hf
  · exact .inl ((spec_parses s h).at_budget hf)

end Fx.Parse
