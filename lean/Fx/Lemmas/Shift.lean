/-
  Fx.Lemmas.Shift — position independence: running a decoder on the same bytes placed `δ` further into a larger
  allocation gives the same result, every opaque leaf being the same window moved by `δ`.
-/
import Fx.Eval
import Fx.Lemmas.Runtime
import Fx.Lemmas.Advance
namespace Fx

mutual
def Val.shift (δ : Nat) : Val → Val
  | .bytes off bs => .bytes (off + δ) bs
  | .vec xs => .vec (xs.shift δ)
  | .arr xs => .arr (xs.shift δ)
  | .some v => .some (v.shift δ)
  | .struct n fn fs => .struct n fn (fs.shift δ)
  | .tuple t x v => .tuple t x (v.shift δ)
  | .newtype n v => .newtype n (v.shift δ)
  | .u32 n => .u32 n | .u64 n => .u64 n | .i32 i => .i32 i | .i64 i => .i64 i
  | .f32 b => .f32 b | .f64 b => .f64 b | .bool b => .bool b | .str bs => .str bs
  | .none => .none | .unit t x => .unit t x | .cenum n m => .cenum n m
def Vals.shift (δ : Nat) : Vals → Vals
  | .nil => .nil
  | .cons v vs => .cons (v.shift δ) (vs.shift δ)
end

def Cur.shift (δ : Nat) (c : Cur) : Cur := ⟨c.off + δ, c.data, c.log⟩

def Res.shiftWith {α} (g : α → α) (δ : Nat) : Res α → Res α
  | .ok v c => .ok (g v) (c.shift δ)
  | .err e l => .err e l
  | .panic s => .panic s
  | .abort => .abort
  | .outOfFuel => .outOfFuel

@[simp] theorem Cur.shift_remaining (δ : Nat) (c : Cur) : (c.shift δ).remaining = c.remaining := rfl
@[simp] theorem Cur.shift_log (δ : Nat) (c : Cur) : (c.shift δ).log = c.log := rfl
@[simp] theorem Cur.shift_data (δ : Nat) (c : Cur) : (c.shift δ).data = c.data := rfl
@[simp] theorem Cur.shift_off (δ : Nat) (c : Cur) : (c.shift δ).off = c.off + δ := rfl
theorem Cur.shift_advance (δ k : Nat) (c : Cur) : (c.shift δ).advance k = (c.advance k).shift δ := by
  simp [Cur.shift, Cur.advance]; omega
theorem Cur.shift_addLog (δ : Nat) (c : Cur) (e : Ev) : (c.shift δ).addLog e = (c.addLog e).shift δ := rfl

/-- `f` commutes with moving the view (`g` moves the result) -/
def Shf {α} (δ : Nat) (g : α → α) (f : Cur → Res α) : Prop := ∀ c, f (c.shift δ) = (f c).shiftWith g δ

theorem Shf.congr {α} {δ : Nat} {g : α → α} {f f' : Cur → Res α} (h : ∀ c, f c = f' c) (hf : Shf δ g f') : Shf δ g f := by
  have : f = f' := funext h
  rw [this]; exact hf

theorem Shf.bind {α β} {δ : Nat} {g : α → α} {h : β → β} {f : Cur → Res α} {k : α → Cur → Res β}
    (hf : Shf δ g f) (hk : ∀ v c, k (g v) (c.shift δ) = (k v c).shiftWith h δ) : Shf δ h (fun c => (f c).bind k) := by
  intro c
  simp only
  rw [hf c]
  cases f c with
  | ok v c1 => simp only [Res.shiftWith, Res.bind_ok]; exact hk v c1
  | err e l => rfl
  | panic s => rfl
  | abort => rfl
  | outOfFuel => rfl

theorem Shf.map {α β} {δ : Nat} {f : Cur → Res α} (w : α → β) (hβ : β → β) (hf : Shf δ id f) (hw : ∀ v, hβ (w v) = w v) :
    Shf δ hβ (fun c => (f c).map w) := by
  refine Shf.bind hf (fun v c => ?_)
  simp [Res.shiftWith, hw]

/-! ### values: sizes and patterns do not look at offsets -/

mutual
theorem Val.ws_shift (p : Plans) (δ : Nat) : ∀ (v : Val), wsVal p (v.shift δ) = wsVal p v
  | .bytes off bs => by simp [Val.shift, wsVal]
  | .vec xs => by simp only [Val.shift, wsVal, Vals.wsSum_shift p δ xs]
  | .arr xs => by simp only [Val.shift, wsVal, Vals.wsSum_shift p δ xs]
  | .some v => by simp only [Val.shift, wsVal, Val.ws_shift p δ v]
  | .struct n fn fs => by
    simp only [Val.shift, wsVal]
    cases hfs : p.findSize n with
    | none => rfl
    | some si =>
      obtain ⟨a, b, body⟩ := si
      cases body with
      | struct sfs => simp only [Vals.wsFields_shift p δ fs sfs]
      | union _ => rfl
      | enum => rfl
      | typedef _ _ => rfl
  | .tuple t x v => by simp only [Val.shift, wsVal, Val.ws_shift p δ v]
  | .newtype n v => by simp only [Val.shift, wsVal, Val.ws_shift p δ v]
  | .u32 _ => rfl | .u64 _ => rfl | .i32 _ => rfl | .i64 _ => rfl
  | .f32 _ => rfl | .f64 _ => rfl | .bool _ => rfl | .str _ => rfl
  | .none => rfl | .unit _ _ => rfl | .cenum _ _ => rfl
theorem Vals.wsSum_shift (p : Plans) (δ : Nat) : ∀ (vs : Vals), wsSum p (vs.shift δ) = wsSum p vs
  | .nil => rfl
  | .cons v vs => by simp only [Vals.shift, wsSum, Val.ws_shift p δ v, Vals.wsSum_shift p δ vs]
theorem Vals.wsFields_shift (p : Plans) (δ : Nat) : ∀ (vs : Vals) (sfs : List SizeField), wsFields p sfs (vs.shift δ) = wsFields p sfs vs
  | .nil, sfs => by cases sfs <;> simp [Vals.shift, wsFields]
  | .cons v vs, [] => by simp only [Vals.shift, wsFields, Val.ws_shift p δ v, Vals.wsFields_shift p δ vs []]
  | .cons v vs, f :: rest => by simp only [Vals.shift, wsFields, Val.ws_shift p δ v, Vals.wsFields_shift p δ vs rest]
end

theorem scrutInt_shift (δ : Nat) (v : Val) : scrutInt (v.shift δ) = scrutInt v := by
  cases v <;> simp [Val.shift, scrutInt]

theorem litMatches_shift (a : Ast) (t : String) (δ : Nat) (v : Val) : litMatches a t (v.shift δ) = litMatches a t v := by
  simp only [litMatches, scrutInt_shift]
  cases v <;> simp [Val.shift]

theorem patMatches_shift (a : Ast) (pt : Pat) (δ : Nat) (v : Val) : patMatches a pt (v.shift δ) = patMatches a pt v := by
  cases pt with
  | wild => rfl
  | lit t => simp only [patMatches, litMatches_shift]
  | guard e x ty =>
    simp only [patMatches, scrutInt_shift]
    cases v <;> simp [Val.shift]

theorem selectArm_shift (a : Ast) (δ : Nat) (v : Val) : ∀ (arms : List Arm), selectArm a (v.shift δ) arms = selectArm a v arms
  | [] => rfl
  | arm :: rest => by simp only [selectArm, patMatches_shift, selectArm_shift a δ v rest]

theorem asI32_shift (a : Ast) (δ : Nat) (v : Val) : asI32 a (v.shift δ) = asI32 a v := by
  cases v <;> simp [Val.shift, asI32]

theorem Vals.shift_snoc (δ : Nat) : ∀ (vs : Vals) (v : Val), (vs.snoc v).shift δ = (vs.shift δ).snoc (v.shift δ)
  | .nil, v => by simp [Vals.snoc, Vals.shift]
  | .cons x xs, v => by simp [Vals.snoc, Vals.shift, Vals.shift_snoc δ xs v]

/-! ### readers -/

theorem readU32_shf (δ : Nat) : Shf δ id readU32 := by
  intro c
  obtain ⟨off, data, log⟩ := c
  match data with
  | a :: b :: x :: d :: rest => simp [readU32_cons, Cur.shift, Res.shiftWith]; omega
  | [] => simp [readU32, Cur.shift, Cur.remaining, Res.shiftWith]
  | [_] => simp [readU32, Cur.shift, Cur.remaining, Res.shiftWith]
  | [_, _] => simp [readU32, Cur.shift, Cur.remaining, Res.shiftWith]
  | [_, _, _] => simp [readU32, Cur.shift, Cur.remaining, Res.shiftWith]

theorem readU64_cons (o : Nat) (a b x d e f g i : Byte) (s : List Byte) (lg : List Ev) :
    readU64 ⟨o, a :: b :: x :: d :: e :: f :: g :: i :: s, lg⟩ =
      .ok (word32 a b x d * 2^32 + word32 e f g i) ⟨o + 8, s, lg⟩ := by
  simp [readU64, getU64P, Cur.advance]

theorem readI32_shf (δ : Nat) : Shf δ id readI32 := Shf.map _ id (readU32_shf δ) (fun _ => rfl)
theorem shiftWith_ok_nat (δ off : Nat) (log : List Ev) (w : Nat) (rest : List Byte) :
    (Res.ok w ⟨off + δ + 8, rest, log⟩ : Res Nat) = (Res.ok w ⟨off + 8, rest, log⟩ : Res Nat).shiftWith id δ := by
  show _ = Res.ok w ⟨off + 8 + δ, rest, log⟩
  rw [show off + δ + 8 = off + 8 + δ by omega]

theorem readU64_shf (δ : Nat) : Shf δ id readU64 := by
  intro c
  obtain ⟨off, data, log⟩ := c
  match data with
  | a :: b :: x :: d :: e :: f :: g :: i :: rest =>
    have h1 := readU64_cons (off + δ) a b x d e f g i rest log
    have h2 := readU64_cons off a b x d e f g i rest log
    generalize word32 a b x d * 2^32 + word32 e f g i = w at h1 h2
    have e : Cur.shift δ ⟨off, a :: b :: x :: d :: e :: f :: g :: i :: rest, log⟩ =
        ⟨off + δ, a :: b :: x :: d :: e :: f :: g :: i :: rest, log⟩ := rfl
    rw [e, h1, h2]
    exact shiftWith_ok_nat δ off log w rest
  | [] => simp [readU64, Cur.shift, Cur.remaining, Res.shiftWith]
  | [_] => simp [readU64, Cur.shift, Cur.remaining, Res.shiftWith]
  | [_, _] => simp [readU64, Cur.shift, Cur.remaining, Res.shiftWith]
  | [_, _, _] => simp [readU64, Cur.shift, Cur.remaining, Res.shiftWith]
  | [_, _, _, _] => simp [readU64, Cur.shift, Cur.remaining, Res.shiftWith]
  | [_, _, _, _, _] => simp [readU64, Cur.shift, Cur.remaining, Res.shiftWith]
  | [_, _, _, _, _, _] => simp [readU64, Cur.shift, Cur.remaining, Res.shiftWith]
  | [_, _, _, _, _, _, _] => simp [readU64, Cur.shift, Cur.remaining, Res.shiftWith]

theorem readI64_shf (δ : Nat) : Shf δ id readI64 := Shf.map _ id (readU64_shf δ) (fun _ => rfl)

theorem readBool_shf (δ : Nat) : Shf δ id readBool := by
  refine Shf.bind (readI32_shf δ) (fun i c => ?_)
  simp only [id]
  split
  · rfl
  · split
    · rfl
    · rfl

theorem readBytes_shf (δ n : Nat) : Shf δ (Val.shift δ) (readBytes n) := by
  intro c
  by_cases h : c.remaining < n + padLen n
  · rw [readBytes_short n c h, readBytes_short n (c.shift δ) (by simpa using h)]; rfl
  · rw [readBytes_enough n c (by omega), readBytes_enough n (c.shift δ) (by simp; omega)]
    simp [Res.shiftWith, Val.shift, Cur.shift_advance]

theorem readVariableBytes_shf (δ : Nat) (m : Option Nat) : Shf δ (Val.shift δ) (readVariableBytes m) := by
  refine Shf.bind (readU32_shf δ) (fun n c => ?_)
  simp only [id]
  split
  · rfl
  · exact readBytes_shf δ n c

theorem payloadOf_shift (δ : Nat) (v : Val) : payloadOf (v.shift δ) = payloadOf v := by
  cases v <;> simp [Val.shift, payloadOf]

theorem readString_shf (δ : Nat) (m : Option Nat) : Shf δ (Val.shift δ) (readString m) := by
  refine Shf.bind (readVariableBytes_shf δ m) (fun b c => ?_)
  simp only [payloadOf_shift]
  split
  · simp [Res.shiftWith, Val.shift, Cur.shift_addLog]
  · rfl

theorem readPrim_shf (δ : Nat) (pr : Prim) : Shf δ (Val.shift δ) (readPrim pr) := by
  cases pr
  · exact Shf.congr (f' := fun c => (readU32 c).map Val.u32) (fun c => rfl) (Shf.map _ _ (readU32_shf δ) (fun _ => rfl))
  · exact Shf.congr (f' := fun c => (readU64 c).map Val.u64) (fun c => rfl) (Shf.map _ _ (readU64_shf δ) (fun _ => rfl))
  · exact Shf.congr (f' := fun c => (readI32 c).map Val.i32) (fun c => rfl) (Shf.map _ _ (readI32_shf δ) (fun _ => rfl))
  · exact Shf.congr (f' := fun c => (readI64 c).map Val.i64) (fun c => rfl) (Shf.map _ _ (readI64_shf δ) (fun _ => rfl))
  · exact Shf.congr (f' := fun c => (readU32 c).map Val.f32) (fun c => rfl) (Shf.map _ _ (readU32_shf δ) (fun _ => rfl))
  · exact Shf.congr (f' := fun c => (readU64 c).map Val.f64) (fun c => rfl) (Shf.map _ _ (readU64_shf δ) (fun _ => rfl))
  · exact Shf.congr (f' := fun c => (readBool c).map Val.bool) (fun c => rfl) (Shf.map _ _ (readBool_shf δ) (fun _ => rfl))

theorem arrLoop_shf (δ : Nat) (dec : Cur → Res Val) (ws : Val → Nat) (hd : Shf δ (Val.shift δ) dec)
    (hws : ∀ v, ws (v.shift δ) = ws v) :
    ∀ (k : Nat) (c : Cur) (sum : Nat) (acc : Vals),
      arrLoop dec ws k (c.shift δ) sum (acc.shift δ) =
        (arrLoop dec ws k c sum acc).shiftWith (fun r => (r.1.shift δ, r.2)) δ := by
  intro k
  induction k with
  | zero => intro c sum acc; simp [arrLoop, Res.shiftWith]
  | succ k ih =>
    intro c sum acc
    simp only [arrLoop]
    rw [hd c]
    cases hr : dec c with
    | ok t ct =>
      by_cases hlt : c.remaining < ws t
      · simp [Res.shiftWith, hws, hlt]
      · have e := ih ⟨(c.advance (ws t)).off, (c.advance (ws t)).data, ct.log⟩ (sum + ws t) (acc.snoc t)
        rw [Vals.shift_snoc] at e
        have hc : (⟨((c.shift δ).advance (ws t)).off, ((c.shift δ).advance (ws t)).data, ct.log⟩ : Cur) =
            Cur.shift δ ⟨(c.advance (ws t)).off, (c.advance (ws t)).data, ct.log⟩ := by
          simp [Cur.shift, Cur.advance]; omega
        simp only [Res.shiftWith, hws, Cur.shift_remaining, Cur.shift_log, hlt, if_false]
        rw [hc]
        exact e
    | err e l => rfl
    | panic s => rfl
    | abort => rfl
    | outOfFuel => rfl

theorem readVariableArray_shf (δ : Nat) (dec : Cur → Res Val) (ws : Val → Nat) (m : Option Nat)
    (hd : Shf δ (Val.shift δ) dec) (hws : ∀ v, ws (v.shift δ) = ws v) :
    Shf δ (Val.shift δ) (readVariableArray dec ws m) := by
  refine Shf.bind (readU32_shf δ) (fun n c1 => ?_)
  simp only [id]
  split
  · rfl
  · have := arrLoop_shf δ dec ws hd hws n (c1.addLog (.vec (min n c1.remaining))) 0 .nil
    simp only [Cur.shift_remaining, Cur.shift_addLog]
    simp only [Vals.shift] at this
    rw [this]
    cases arrLoop dec ws n (c1.addLog (.vec (min n c1.remaining))) 0 .nil with
    | ok r c3 =>
      simp only [Res.shiftWith, Res.bind_ok, Cur.shift_remaining, Cur.shift_log]
      by_cases hp : c3.remaining < padLen r.2
      · simp [hp, Res.shiftWith]
      · simp [hp, advanceP, Res.shiftWith, Val.shift, Cur.shift_advance]
    | err e l => rfl
    | panic s => rfl
    | abort => rfl
    | outOfFuel => rfl

theorem Shf.pure {α} {δ : Nat} {g : α → α} (v : α) (hv : g v = v) : Shf δ g (fun c => Res.ok v c) := by
  intro c; simp [Res.shiftWith, hv]

theorem Shf.fail {α} {δ : Nat} {g : α → α} (r : Cur → Res α) (h : ∀ c, r (c.shift δ) = r c) (h2 : ∀ c v c', r c ≠ .ok v c') : Shf δ g r := by
  intro c
  rw [h c]
  cases hr : r c with
  | ok v c' => exact absurd hr (h2 c v c')
  | err e l => rfl
  | panic s => rfl
  | abort => rfl
  | outOfFuel => rfl

theorem shf_bind2 {α β} {δ : Nat} {g : α → α} {h : β → β} {f : Cur → Res α} (hf : Shf δ g f) {k k' : α → Cur → Res β}
    (hk : ∀ v c, k' (g v) (c.shift δ) = (k v c).shiftWith h δ) (c : Cur) :
    (f (c.shift δ)).bind k' = ((f c).bind k).shiftWith h δ := by
  rw [hf c]
  cases f c with
  | ok v c1 => simp only [Res.shiftWith, Res.bind_ok]; exact hk v c1
  | err e l => rfl
  | panic s => rfl
  | abort => rfl
  | outOfFuel => rfl

/-- **position independence of every evaluator**: for ALL byte strings and ALL plans -/
theorem eval_shift (a : Ast) (p : Plans) (δ : Nat) (fuel : Nat) :
    (∀ n, Shf δ (Val.shift δ) (evalImpl a p fuel n)) ∧
    (∀ b, Shf δ (Val.shift δ) (evalBasic a p fuel b)) ∧
    (∀ fd, Shf δ (Val.shift δ) (evalField a p fuel fd)) ∧
    (∀ k b, Shf δ (Vals.shift δ) (evalRepeat a p fuel k b)) ∧
    (∀ fs, Shf δ (Vals.shift δ) (evalFields a p fuel fs)) := by
  induction fuel with
  | zero =>
    refine ⟨?_, ?_, ?_, ?_, ?_⟩ <;> intros <;> intro c <;>
      simp [evalImpl, evalBasic, evalField, evalRepeat, evalFields, Res.shiftWith]
  | succ f ih =>
    obtain ⟨ihI, ihB, ihF, ihR, ihFs⟩ := ih
    refine ⟨?_, ?_, ?_, ?_, ?_⟩
    · intro n
      cases hfi : p.findImpl n with
      | none => intro c; simp [evalImpl, hfi, Res.shiftWith]
      | some i =>
        cases hb : i.body with
        | struct fs =>
          refine Shf.congr (f' := fun c => (evalFields a p f fs c).bind fun vs c' => .ok (.struct n (fs.map fieldNameOf) vs) c')
            (fun c => by simp [evalImpl, hfi, hb]) (Shf.bind (ihFs fs) (fun vs c => by simp [Res.shiftWith, Val.shift]))
        | union u =>
          refine Shf.congr (f' := fun c => (evalBasic a p f u.disc c).bind fun d c1 =>
              (match selectArm a d u.arms with
               | some arm =>
                 (match arm.payload with
                  | some fd => (evalField a p f fd c1).bind fun v c2 => .ok (.tuple n (nonDigitName arm.variant) v) c2
                  | none => .ok (.unit n (nonDigitName arm.variant)) c1)
               | none =>
                 (match u.tail with
                  | .defaultData fd => (evalField a p f fd c1).bind fun v c2 => .ok (.tuple n "default" v) c2
                  | .errUnknown => .err (.unknownVariant (asI32 a d)) c1.log
                  | .none => .panic "non-exhaustive match")))
            (fun c => by simp only [evalImpl, hfi, hb]; rfl) (Shf.bind (ihB u.disc) (fun d c1 => ?_))
          simp only [selectArm_shift, asI32_shift]
          cases hsel : selectArm a d u.arms with
          | some arm =>
            dsimp only
            cases hpl : arm.payload with
            | some fd =>
              dsimp only
              exact Shf.bind (ihF fd) (fun v c => by simp [Res.shiftWith, Val.shift]) c1
            | none => simp [Res.shiftWith, Val.shift]
          | none =>
            dsimp only
            cases ht : u.tail with
            | defaultData fd =>
              dsimp only
              exact Shf.bind (ihF fd) (fun v c => by simp [Res.shiftWith, Val.shift]) c1
            | errUnknown => simp [Res.shiftWith]
            | none => simp [Res.shiftWith]
        | enum arms =>
          refine Shf.congr (f' := fun c => (readI32 c).bind fun i c1 =>
              (match selectEnum a (.i32 i) arms with
               | some m => .ok (.cenum n m) c1
               | none => .err (.unknownVariant i) c1.log))
            (fun c => by simp only [evalImpl, hfi, hb]; rfl) (Shf.bind (readI32_shf δ) (fun i c1 => ?_))
          simp only [id]
          cases hsel : selectEnum a (.i32 i) arms with
          | some m => simp [Res.shiftWith, Val.shift]
          | none => simp [Res.shiftWith]
        | typedef fd =>
          refine Shf.congr (f' := fun c => (evalField a p f fd c).bind fun v c' => .ok (.newtype n v) c')
            (fun c => by simp [evalImpl, hfi, hb]) (Shf.bind (ihF fd) (fun v c => by simp [Res.shiftWith, Val.shift]))
    · intro b
      match b with
      | .prim pr => exact Shf.congr (fun c => by simp [evalBasic]) (readPrim_shf δ pr)
      | .string => exact Shf.congr (fun c => by simp [evalBasic]) (readString_shf δ none)
      | .opaque => exact Shf.congr (fun c => by simp [evalBasic]) (readVariableBytes_shf δ none)
      | .tryFrom n => exact Shf.congr (fun c => by simp [evalBasic]) (ihI n)
    · intro fd
      cases fd with
      | one b => exact Shf.congr (fun c => by simp [evalField]) (ihB b)
      | fixedBytes n => exact Shf.congr (fun c => by simp [evalField]) (readBytes_shf δ n)
      | fixedArr n b =>
        exact Shf.congr (f' := fun c => (evalRepeat a p f n b c).bind fun vs c' => .ok (.arr vs) c')
          (fun c => by simp [evalField]) (Shf.bind (ihR n b) (fun vs c => by simp [Res.shiftWith, Val.shift]))
      | varBytes m => exact Shf.congr (fun c => by simp [evalField]) (readVariableBytes_shf δ m)
      | varString m => exact Shf.congr (fun c => by simp [evalField]) (readString_shf δ m)
      | varArr ty g m =>
        exact Shf.congr (fun c => by simp [evalField])
          (readVariableArray_shf δ (evalImpl a p f ty) (wsVal p) m (ihI ty) (Val.ws_shift p δ))
    · intro k b
      cases k with
      | zero => exact Shf.congr (f' := fun c => Res.ok Vals.nil c) (fun c => by simp [evalRepeat]) (Shf.pure _ rfl)
      | succ k =>
        refine Shf.congr (f' := fun c => (evalBasic a p f b c).bind fun v c1 =>
            (evalRepeat a p f k b c1).bind fun vs c2 => .ok (.cons v vs) c2)
          (fun c => by simp [evalRepeat]) (Shf.bind (ihB b) (fun v c1 => ?_))
        exact shf_bind2 (ihR k b) (fun vs c => by simp [Res.shiftWith, Vals.shift]) c1
    · intro fs
      cases fs with
      | nil => exact Shf.congr (f' := fun c => Res.ok Vals.nil c) (fun c => by simp [evalFields]) (Shf.pure _ rfl)
      | cons fld rest =>
        cases fld with
        | plain nm fd =>
          refine Shf.congr (f' := fun c => (evalField a p f fd c).bind fun v c' =>
              (evalFields a p f rest c').bind fun vs c'' => .ok (.cons v vs) c'')
            (fun c => by simp [evalFields]) (Shf.bind (ihF fd) (fun v c1 => ?_))
          exact shf_bind2 (ihFs rest) (fun vs c => by simp [Res.shiftWith, Vals.shift]) c1
        | optional nm ty =>
          refine Shf.congr (f' := fun c => ((readU32 c).bind fun m c1 =>
                if m = 0 then .ok .none c1
                else if m = 1 then (evalImpl a p f ty c1).bind fun v c2 => .ok (.some v) (c2.addLog .box)
                else .err (.unknownOptionVariant m) c1.log).bind fun v c' =>
              (evalFields a p f rest c').bind fun vs c'' => .ok (.cons v vs) c'')
            (fun c => by simp [evalFields]) (Shf.bind (g := Val.shift δ) (Shf.bind (readU32_shf δ) (fun m c1 => ?_)) (fun v c1 => ?_))
          · simp only [id]
            by_cases h0 : m = 0
            · simp [h0, Res.shiftWith, Val.shift]
            · by_cases h1 : m = 1
              · simp only [h1, if_true]
                exact Shf.bind (ihI ty) (fun v c => by simp [Res.shiftWith, Val.shift, Cur.shift_addLog]) c1
              · simp [h0, h1, Res.shiftWith]
          · exact shf_bind2 (ihFs rest) (fun vs c => by simp [Res.shiftWith, Vals.shift]) c1

end Fx
