import Fx.Basic
import Fx.Runtime
