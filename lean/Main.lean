import Fx.RtDriver
import Fx.FrontDriver
open Fx

def handle (line : String) : String :=
  match line.trimAscii.toString.splitOn " " |>.filter (· ≠ "") with
  | "rt" :: rest => rtRequest rest
  | "ast" :: rest => frontRequest rest
  | _ => "bad-op"

partial def loop (h : IO.FS.Stream) (out : IO.FS.Stream) : IO Unit := do
  let line ← h.getLine
  if line.isEmpty then return ()
  out.putStrLn (handle line)
  loop h out

def main : IO Unit := do
  let out ← IO.getStdout
  loop (← IO.getStdin) out
  out.flush
