import Fx.RtDriver
import Fx.FrontDriver
import Fx.GenDriver
open Fx

def handle (line : String) : String :=
  match line.trimAscii.toString.splitOn " " |>.filter (· ≠ "") with
  | "rt" :: rest => rtRequest rest
  | "ast" :: rest => frontRequest rest
  | "gen" :: rest => genRequest rest
  | _ => "bad-op"

partial def loop (h : IO.FS.Stream) (out : IO.FS.Stream) : IO Unit := do
  let line ← h.getLine
  if line.isEmpty then return ()
  out.putStrLn (handle line)
  loop h out

def main : IO Unit := do
  let out ← IO.getStdout
  loop (← IO.getStdin) out
  out.flush
