import Fx.RtDriver
import Fx.FrontDriver
import Fx.GenDriver
import Fx.DecDriver
open Fx

def handle (st : DState) (line : String) : String × DState :=
  match line.trimAscii.toString.splitOn " " |>.filter (· ≠ "") with
  | "rt" :: rest => (rtRequest rest, st)
  | "ast" :: rest => (frontRequest rest, st)
  | "gen" :: rest => (genRequest rest, st)
  | "cli" :: rest => (cliRequest rest, st)
  | ["spec", h] =>
    (match textOfHex h with
     | some t => let (reply, l) := loadSpec t; (reply, st.push l)
     | none => ("bad-op", st.push none))
  | "dec" :: rest => (decRequest st rest, st)
  | "genval" :: rest => (genvalRequest st rest, st)
  | "outputok" :: rest => (outputOkRequest rest, st)
  | "genover" :: rest => (genoverRequest st rest, st)
  | "gendeep" :: rest => (gendeepRequest st rest, st)
  | _ => ("bad-op", st)

partial def loop (h : IO.FS.Stream) (out : IO.FS.Stream) (st : DState) : IO Unit := do
  let line ← h.getLine
  if line.isEmpty then return ()
  let (reply, st') := handle st line
  out.putStrLn reply
  loop h out st'

def main : IO Unit := do
  let out ← IO.getStdout
  loop (← IO.getStdin) out #[]
  out.flush
