#!/bin/sh
# usage: tools/seedcopy.sh <worktree with the change applied> <prop> [<prop>...]
# Runs the quick checks against a modified checkout WITHOUT touching /repo: a scratch copy of /verif under /tmp whose
# harness crates and FX_REPO point at the worktree.  The copy is removed afterwards.
set -u
wt="$1"; shift
name=$(basename "$wt")
dst=/tmp/vs_$name
rm -rf "$dst"; mkdir -p "$dst"
rsync -a --exclude work --exclude replays --exclude evidence --exclude 'harness/*/target' --exclude seeded --exclude .git /verif/ "$dst/"
mkdir -p "$dst/work" "$dst/evidence" "$dst/replays"
sed -i "s#\"/repo\"#\"$wt\"#" "$dst"/harness/*/Cargo.toml
sed -i "s#/repo/src#$wt/src#" "$dst/harness/front/src/main.rs" "$dst/harness/rt/build.rs"
for c in "$dst"/harness/*/; do [ -f "$c/Cargo.toml" ] && cp "$wt/Cargo.lock" "$c/Cargo.lock"; done
export FX_REPO="$wt" CARGO_NET_OFFLINE=true
echo "== $name: unit tests with the change: $(cd "$wt" && cargo test --offline 2>&1 | grep 'test result' | head -1)"
for p in "$@"; do
  echo "== $name $p"; (cd "$dst" && ./check "$p" --tier quick 2>&1 | grep -E "VIOLATION|KNOWN|quick:" | head -9)
  for r in $(cd "$dst" && ls replays 2>/dev/null | head -2); do echo "--- replay $r"; head -c 1200 "$dst/replays/$r"; echo; done
  rm -rf "$dst/replays"/*
done
rm -rf "$dst"
