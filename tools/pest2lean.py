#!/usr/bin/env python3
"""T0: translate src/xdr.pest into Fx/Grammar.lean (a value of Fx.Peg.Grammar).

Understands exactly the pest syntax the grammar uses and rejects anything else:
rules `name = [_@]? { expr }`, `~`, `|`, postfix `* + ?`, prefix `!`, parentheses,
string literals, rule references, the builtins ANY SOI EOI NEWLINE ASCII_DIGIT
ASCII_ALPHANUMERIC, `//` comments.  Precedence as in pest_meta: postfix, then
prefix, then `~`, then `|`."""
import re, sys

BUILTINS = {"ANY": ".any", "SOI": ".soi", "EOI": ".eoi", "NEWLINE": ".newline",
            "ASCII_DIGIT": ".digit", "ASCII_ALPHANUMERIC": ".alnum"}


class Bad(Exception):
    pass


def tokenize(src):
    toks, i = [], 0
    while i < len(src):
        c = src[i]
        if c.isspace():
            i += 1
        elif src.startswith("//", i):
            while i < len(src) and src[i] != "\n":
                i += 1
        elif src.startswith("/*", i):
            j = src.find("*/", i)
            if j < 0:
                raise Bad("unterminated comment")
            i = j + 2
        elif c == '"':
            j, s = i + 1, []
            while j < len(src) and src[j] != '"':
                if src[j] == "\\":
                    j += 1
                    esc = {"n": "\n", "t": "\t", "r": "\r", "\\": "\\", '"': '"', "0": "\0", "'": "'"}
                    if src[j] not in esc:
                        raise Bad("unsupported escape \\" + src[j])
                    s.append(esc[src[j]])
                else:
                    s.append(src[j])
                j += 1
            if j >= len(src):
                raise Bad("unterminated string")
            toks.append(("str", "".join(s)))
            i = j + 1
        elif c.isalpha() or c == "_":
            j = i
            while j < len(src) and (src[j].isalnum() or src[j] == "_"):
                j += 1
            toks.append(("id", src[i:j]))
            i = j
        elif c in "={}()~|*+?!@$":
            toks.append((c, c))
            i += 1
        else:
            raise Bad("unsupported character %r at %d" % (c, i))
    return toks


class P:
    def __init__(self, toks):
        self.t, self.i = toks, 0

    def peek(self):
        return self.t[self.i] if self.i < len(self.t) else (None, None)

    def eat(self, k):
        if self.peek()[0] != k:
            raise Bad("expected %s at token %d, got %r" % (k, self.i, self.peek()))
        self.i += 1
        return self.t[self.i - 1][1]

    def rules(self):
        out = []
        while self.peek()[0] is not None:
            name = self.eat("id")
            self.eat("=")
            ty = "normal"
            if self.peek()[0] == "_":
                self.i += 1
                ty = "silent"
            elif self.peek()[0] == "id" and self.peek()[1] == "_":
                self.i += 1
                ty = "silent"
            elif self.peek()[0] == "@":
                self.i += 1
                ty = "atomic"
            elif self.peek()[0] in ("$", "!"):
                raise Bad("rule modifier %s not supported" % self.peek()[0])
            self.eat("{")
            e = self.choice()
            self.eat("}")
            out.append((name, ty, e))
        return out

    def choice(self):
        xs = [self.seq()]
        while self.peek()[0] == "|":
            self.i += 1
            xs.append(self.seq())
        e = xs[-1]
        for x in reversed(xs[:-1]):
            e = ("alt", x, e)
        return e

    def seq(self):
        xs = [self.term()]
        while self.peek()[0] == "~":
            self.i += 1
            xs.append(self.term())
        e = xs[-1]
        for x in reversed(xs[:-1]):
            e = ("seq", x, e)
        return e

    def term(self):
        if self.peek()[0] == "!":
            self.i += 1
            return ("not", self.term())
        k, v = self.peek()
        if k == "(":
            self.i += 1
            e = self.choice()
            self.eat(")")
        elif k == "str":
            self.i += 1
            e = ("str", v)
        elif k == "id":
            self.i += 1
            e = ("ref", v)
        else:
            raise Bad("unexpected token %r" % (self.peek(),))
        while self.peek()[0] in ("*", "+", "?"):
            op = self.eat(self.peek()[0])
            e = ({"*": "star", "+": "plus", "?": "opt"}[op], e)
        return e


def lean_char(c):
    if c == "\n":
        return "'\\n'"
    if c == "\t":
        return "'\\t'"
    if c == "\r":
        return "'\\r'"
    if c == "\\":
        return "'\\\\'"
    if c == "'":
        return "'\\''"
    if ord(c) < 32 or ord(c) > 126:
        raise Bad("non-printable literal")
    return "'%s'" % c


def lean(e, names):
    k = e[0]
    if k == "str":
        return "(.str [%s])" % ", ".join(lean_char(c) for c in e[1])
    if k == "ref":
        if e[1] in BUILTINS:
            return BUILTINS[e[1]]
        if e[1] not in names:
            raise Bad("reference to unknown rule " + e[1])
        return '(.ref "%s")' % e[1]
    if k in ("seq", "alt"):
        return "(.%s %s %s)" % (k, lean(e[1], names), lean(e[2], names))
    return "(.%s %s)" % (k, lean(e[1], names))


def main():
    src, dst = sys.argv[1], sys.argv[2]
    try:
        rules = P(tokenize(open(src).read())).rules()
        names = {r[0] for r in rules}
        if len(names) != len(rules):
            raise Bad("duplicate rule")
        body = ",\n".join('  ⟨"%s", .%s, %s⟩' % (n, ty, lean(e, names)) for n, ty, e in rules)
    except Bad as ex:
        print("pest2lean: cannot translate %s: %s" % (src, ex))
        sys.exit(1)
    out = ("/- GENERATED by tools/pest2lean.py from src/xdr.pest on every run (tie T0). Do not edit. -/\n"
           "import Fx.Peg\nnamespace Fx.Grammar\nopen Fx.Peg Fx.Peg.Expr\n\n"
           "def xdr : Fx.Peg.Grammar := [\n" + body + "\n]\n\nend Fx.Grammar\n")
    try:
        if open(dst).read() == out:
            return
    except FileNotFoundError:
        pass
    open(dst, "w").write(out)


if __name__ == "__main__":
    main()
