"""T2: behaviour of the compiled generated decoders vs Fx.Eval.

stage 1  harness/backgen: real generator output + Dump impls, one module per specification
stage 2  a crate assembled under work/ from harness/back_template, compiled once per batch
         (cached by the hash of /repo's sources, the batch and the harness)
"""
import shutil
from lib import *
import t3

HARN = os.path.join(VERIF, "harness")


def _hash_files(paths):
    h = hashlib.sha256()
    for p in paths:
        h.update(open(p, "rb").read())
    return h.hexdigest()[:12]


class Batch:
    """A compiled batch of specifications. self.status[k] in ok / gen-err / gen-panic / compile-fail"""

    def __init__(self, texts, with_clone=False, tag="b"):
        self.texts = texts
        ok, log = cargo_build("backgen")
        if not ok:
            raise RuntimeError("harness/backgen does not build:\n" + log[-3000:])
        harness_hash = _hash_files([os.path.join(HARN, "backgen", "src", "main.rs"), os.path.join(HARN, "back_template", "src", "main.rs"),
                                    os.path.join(HARN, "back_template", "src", "perspec.rs"), os.path.join(HARN, "common", "dump.rs"),
                                    os.path.join(HARN, "common", "alloc.rs")])
        key = hashlib.sha256(("\n".join(texts) + repo_tree_hash() + harness_hash + str(with_clone)).encode()).hexdigest()[:16]
        self.dir = os.path.join(WORK, "back", "%s_%s" % (tag, key))
        self.bin = os.path.join(self.dir, "fxback")
        self.meta = os.path.join(self.dir, "status.json")
        self.compile_errors = {}
        if os.path.exists(self.bin) and os.path.exists(self.meta):
            m = json.load(open(self.meta))
            self.status, self.compile_errors = m["status"], m["compile_errors"]
            return
        with Lock("back"):
            self._build(with_clone)

    def _build(self, with_clone):
        # keep only a few batches on disk
        root = os.path.join(WORK, "back")
        os.makedirs(root, exist_ok=True)
        old = sorted((os.path.getmtime(os.path.join(root, d)), d) for d in os.listdir(root))
        for _, d in old[:-6]:
            shutil.rmtree(os.path.join(root, d), ignore_errors=True)
        shutil.rmtree(self.dir, ignore_errors=True)
        src = os.path.join(self.dir, "src")
        os.makedirs(os.path.join(src, "gen"))
        shutil.copy(os.path.join(HARN, "back_template", "Cargo.toml"), self.dir)
        shutil.copytree(os.path.join(HARN, "back_template", ".cargo"), os.path.join(self.dir, ".cargo"))
        shutil.copy(os.path.join(REPO, "Cargo.lock"), self.dir)
        for f in ("main.rs", "perspec.rs"):
            shutil.copy(os.path.join(HARN, "back_template", "src", f), src)
        shutil.copy(os.path.join(HARN, "common", "dump.rs"), src)
        shutil.copy(os.path.join(HARN, "common", "alloc.rs"), src)
        bf = os.path.join(self.dir, "batch.txt")
        open(bf, "w").write("\n".join(t3.hx(t) for t in self.texts) + "\n")
        rc, out, err = sh([os.path.join(HARN, "backgen", "target", "debug", "fxbackgen"), bf, os.path.join(src, "gen")] + (["clone"] if with_clone else []))
        if rc != 0:
            raise RuntimeError("backgen failed: " + err[-2000:])
        self.status = {}
        for line in out.split("\n"):
            f = line.split(" ", 2)
            if len(f) >= 2:
                self.status[f[0]] = {"ok": "ok", "err": "gen-err", "panic": "gen-panic"}[f[1]]
        env = dict(ENV, CARGO_TARGET_DIR=os.path.join(WORK, "target_back"))
        for attempt in range(12):
            rc, out, err = sh(["cargo", "build", "--offline", "--quiet", "--message-format=short"], cwd=self.dir, env=env, timeout=3600)
            if rc == 0:
                break
            bad = {}
            for m in re.finditer(r"src/gen/([sc])(\d+)(?:_code)?\.rs:(\d+):\d+: (error[^\n]*)", err + out):
                bad.setdefault(m.group(2), []).append("%s%s:%s %s" % (m.group(1), m.group(2), m.group(3), m.group(4)))
            if not bad:
                raise RuntimeError("back crate does not build and no specification is to blame:\n" + (err + out)[-4000:])
            for k, msgs in bad.items():
                self.status[k] = "compile-fail"
                self.compile_errors[k] = msgs[:4]
            self._drop(bad.keys())
        else:
            raise RuntimeError("back crate still failing after 12 rounds")
        shutil.copy(os.path.join(WORK, "target_back", "debug", "fxback"), self.bin)
        json.dump({"status": self.status, "compile_errors": self.compile_errors}, open(self.meta, "w"))

    def _drop(self, ks):
        gen = os.path.join(self.dir, "src", "gen")
        for f in ("mod.rs", "dispatch.rs"):
            p = os.path.join(gen, f)
            lines = open(p).read().split("\n")
            keep, skip = [], False
            for i, l in enumerate(lines):
                m = re.search(r"pub mod [sc](\d+);|gen::s(\d+)::", l)
                k = (m.group(1) or m.group(2)) if m else None
                if k in ks:
                    if f == "mod.rs" and keep and keep[-1].startswith("#[allow"):
                        keep.pop()
                    continue
                keep.append(l)
            open(p, "w").write("\n".join(keep))

    def run(self, reqs, stack_mb=64):
        env_cmd = ["env", "FX_STACK_MB=%d" % stack_mb, self.bin]
        return run_lines(env_cmd, reqs)


# ---------------------------------------------------------------------------- campaign

BOUNDARY_WORDS = [0, 1, 2, 3, 64, 0xFF, 4096, 0x10000, 0x7FFFFFFF, 0x80000000, 0x80000002, 0xFFFFFFFE, 0xFFFFFFFF]


def tools_hash():
    paths = sorted(os.path.join(VERIF, "tools", f) for f in os.listdir(os.path.join(VERIF, "tools")) if f.endswith(".py"))
    paths.append(DRV)
    return _hash_files(paths)


def array_recursive(items):
    """types from which a dependency cycle through a counted array (`t x<>`) is reachable: nested hostile counts make every level of
    such a type reserve for the whole remaining input (finding K11)"""
    edges = {}
    for it in items:
        k = it["k"]
        if k == "struct":
            edges[it["name"]] = [(f["ty"], bool(f.get("arr")) and f["arr"][0] == "var") for f in it["fields"]]
        elif k == "typedef":
            a = it.get("arr")
            edges[it["name"]] = [(it["ty"], bool(a) and a[0] == "var")]
        elif k == "union":
            edges[it["name"]] = [(arm["body"]["ty"], False) for arm in it["arms"] if isinstance(arm.get("body"), dict)]
    def reach(src):
        seen, todo = set(), [src]
        while todo:
            x = todo.pop()
            for y, _ in edges.get(x, []):
                if y not in seen:
                    seen.add(y)
                    todo.append(y)
        return seen
    on_cycle = set()
    for a, es in edges.items():
        for b, isarr in es:
            if isarr and b in edges and (a == b or a in reach(b)):
                on_cycle.add(a)
    return sorted(t for t in edges if t in on_cycle or reach(t) & on_cycle)


HEAVY_WORDS = 4096


def min_words(items):
    """{type name: number of 32-bit words of a typical generated value (every arm may be taken, optionals and counted arrays hold one
    element)}.  Fixed-length arrays multiply: a chain of `t x[6]` through ten declarations has 6^10 elements in EVERY value, so neither
    a valid value nor its prefixes can be enumerated; such types are exercised through their components only (the campaign lists
    them under `skipped_heavy`)."""
    consts, decl = {}, {}
    for it in items:
        if it["k"] == "const":
            consts[it["name"]] = it["val"]
        elif it["k"] in ("struct", "union", "typedef", "enum"):
            decl[it["name"]] = it

    def cval(s, depth=0):
        if s is None or s == "":
            return None
        if re.fullmatch(r"[0-9]+", s):
            return int(s)
        if s.startswith("0x"):
            try:
                return int(s[2:], 16)
            except ValueError:
                return None
        return cval(consts.get(s), depth + 1) if depth < 50 and s in consts else None

    memo, busy = {}, set()
    CAP = 10 ** 12

    def ty(name):
        if name in ("hyper", "unsigned hyper", "double", "int64_t", "uint64_t", "i64", "u64"):
            return 2
        if name not in decl:
            return 1            # 32-bit primitives, bool, string / opaque (length word), unknown names
        if name in memo:
            return memo[name]
        if name in busy:
            return 1            # recursion goes through an optional or a counted array: one word suffices
        busy.add(name)
        it = decl[name]
        if it["k"] == "enum":
            w = 1
        elif it["k"] == "struct":
            w = sum(declr(f["ty"], f.get("arr"), f.get("opt")) for f in it["fields"])
        elif it["k"] == "typedef":
            w = declr(it["ty"], it.get("arr"), False)
        else:
            bodies = [0 if not isinstance(a.get("body"), dict) else declr(a["body"]["ty"], a["body"].get("arr"), False) for a in it["arms"]]
            w = 1 + (max(bodies) if bodies else 0)
        busy.discard(name)
        memo[name] = min(w, CAP)
        return memo[name]

    def declr(t, arr, opt):
        if opt:
            return 1 + ty(t)
        if not arr:
            return ty(t)
        if arr[0] == "var":
            return 1 + (ty(t) if t not in ("opaque", "string") else 4)
        n = cval(arr[1]) or 0
        if t == "opaque":
            return (n + 3) // 4
        return min(n * ty(t), CAP)

    return {n: ty(n) for n in decl}


def type_names(ast_types_reply):
    # "ok a,b,c"
    return [t for t in ast_types_reply[3:].split(",") if t] if ast_types_reply.startswith("ok") else []


def chunk_plan(tier, nspecs):
    """[(number of random specifications, with the construct catalogue, values per type)] — the thorough tier is the quick
    campaign repeated on fresh specifications, processed and cached chunk by chunk (one chunk is a few hundred MB of cases)"""
    if tier == "quick":
        return [(nspecs or 40, True, 8)]
    # (6 chunks: with the round-5 to round-9 strata a chunk costs about 10 minutes; 10 chunks did not finish within 2.5 h)
    return [(nspecs or 40, True, 16)] + [(60, False, 12)] * 5


def campaign_chunks(tier, seed, nspecs=None, opts=None, tag="t2", with_clone=True):
    """Compiles batches of supported specifications and runs valid and hostile inputs through the compiled decoders
    and the model.  Yields one dict(cases=[...], specs=[...]) per chunk, each cached under work/cache by (repo tree, tools, seed, tier, chunk)."""
    cdir = os.path.join(WORK, "cache")
    os.makedirs(cdir, exist_ok=True)
    for ci, (n, with_catalog, nvals) in enumerate(chunk_plan(tier, nspecs)):
        rng = Rng(seed).fork("t2" + tier + tag + (str(ci) if ci else ""))
        key = hashlib.sha256(("%s|%s|%s|%s|%d|%s|%s|%d" % (repo_tree_hash(), tools_hash(), tier, seed, n, json.dumps(opts, sort_keys=True), tag, ci)).encode()).hexdigest()[:16]
        cfile = os.path.join(cdir, "t2_%s.json" % key)
        if not os.path.exists(cfile):
            with Lock("t2campaign"):
                if not os.path.exists(cfile):
                    res = _campaign(rng, tier, n, nvals, opts, "%s%d" % (tag, ci), with_clone, with_catalog)
                    old = sorted((os.path.getmtime(os.path.join(cdir, f)), f) for f in os.listdir(cdir))
                    for _, f in old[:-7]:
                        os.remove(os.path.join(cdir, f))
                    json.dump(res, open(cfile + ".tmp", "w"))
                    os.replace(cfile + ".tmp", cfile)
                    del res
        os.utime(cfile)
        yield json.load(open(cfile))


def campaign(tier, seed, nspecs=None, opts=None, tag="t2", with_clone=True):
    """the first chunk (the whole campaign in the quick tier)"""
    return next(campaign_chunks(tier, seed, nspecs, opts, tag, with_clone))


def i32(v):
    return v - (1 << 32) if v >= (1 << 31) else v


def targeted(b, marks, rng):
    """hostile inputs derived from the positions the reference marks, each with the error RFC 4506 / the README demand.
    yields (mutated bytes, expected value part, what)"""
    out = []

    def put(off, v):
        return b[:off] + v.to_bytes(4, "big") + b[off + 4:]

    for m in marks:
        kind, _, rest = m.partition("@")
        f = rest.split(":")
        off = int(f[0])
        if kind in ("len", "cnt"):
            if f[1] != "-" and int(f[1]) + 1 < (1 << 32):
                out.append((put(off, int(f[1]) + 1), "err InvalidLength", kind + ">max"))
            for v in [1 << 16, (1 << 31) - 1, 1 << 31, (1 << 32) - 1]:
                if f[1] != "-" and v > int(f[1]):
                    out.append((put(off, v), "err InvalidLength", kind + ">max"))
                else:
                    out.append((put(off, v), "err InvalidLength", kind + ">available"))
        elif kind == "bool":
            for v in (2, 256, 0xFFFFFFFF):
                out.append((put(off, v), "err InvalidBoolean", "bool"))
        elif kind == "opt":
            for v in (2, 0x80000000, 0xFFFFFFFF):
                out.append((put(off, v), "err UnknownOptionVariant %d" % v, "marker"))
        elif kind == "enum":
            vals = {int(x) for x in f[1].split(",") if x}
            for v in [0, 1, 2, 3, 7, 255, 0x7FFFFFFF, 0x80000000, 0xFFFFFFFF]:
                if v not in vals:
                    out.append((put(off, v), "err UnknownVariant %d" % i32(v), "enum"))
        elif kind == "disc":
            vals = {int(x) for x in f[1].split(",") if x}
            if f[2] == "nodefault" and f[3] != "other":
                for v in [0, 1, 2, 3, 9, 255, 0x7FFFFFFF, 0x80000000, 0xFFFFFFFF]:
                    if v in vals:
                        continue
                    if f[3] == "bool" and v > 1:
                        out.append((put(off, v), "err InvalidBoolean", "disc-bool"))
                    else:
                        out.append((put(off, v), "err UnknownVariant %d" % i32(v), "disc"))
        elif kind == "str":
            n = int(f[1])
            if n >= 1:
                for j in sorted({off, off + n - 1, off + rng.below(n)}):
                    out.append((b[:j] + b"\xff" + b[j + 1:], "err NonUtf8String", "utf8"))
                # the same with everything else plain ASCII (a reader that looks at whole words or at a prefix only)
                for j in sorted({0, n - 1, rng.below(n)}):
                    bad = rng.choice([b"\xff", b"\x80"] + ([b"\xc3"] if j == n - 1 else []))   # 0xc3 last: a cut-off two-byte sequence
                    out.append((b[:off] + b"a" * j + bad + b"a" * (n - 1 - j) + b[off + n:], "err NonUtf8String", "utf8-ascii-rest"))
    return out


def _campaign(rng, tier, nspecs, nvals, opts, tag, with_clone, with_catalog=True):
    import specgen
    cases_spec = [] if not with_catalog else [{"text": specgen.render(items), "items": items, "meta": {"flags": [], "catalog": ctag}} for ctag, items in specgen.catalog()]
    if with_catalog:
        cases_spec += [{"text": specgen.render(items), "items": items, "meta": {"flags": [], "catalog": ctag}, "oos": True} for ctag, items in specgen.catalog_oos()]
    cases_spec += t3.corpus_supported(nspecs, rng, variants=1, opts=opts)
    texts = [c["text"] for c in cases_spec]
    batch = Batch(texts, with_clone=with_clone, tag=tag)
    spec_lines = ["spec " + t3.hx(t) for t in texts]
    loaded = run_driver(spec_lines)
    heavy = [min_words(c.get("items") or []) for c in cases_spec]
    skipped_heavy = sorted([k, t, w] for k, mw in enumerate(heavy) for t, w in mw.items() if w > HEAVY_WORDS)

    def tnames(k, rep):     # the types of specification k whose values can be enumerated
        return [t for t in type_names(rep) if heavy[k].get(t, 0) <= HEAVY_WORDS]
    # pass 1: valid values from the reference (value, documented result, marks)
    greqs, gmeta = [], []
    for k, rep in enumerate(loaded):
        if batch.status.get(str(k)) != "ok":
            continue
        for ty in tnames(k, rep):
            for j in range(nvals):
                seed = rng.below(1 << 30)
                greqs.append("genval %d %s %d %d" % (k, ty, seed, 0))
                gmeta.append((k, ty, 0, j))
                if j % 3 == 0:
                    lead = 1 + rng.below(9)
                    greqs.append("genval %d %s %d %d" % (k, ty, seed, lead))
                    gmeta.append((k, ty, lead, -1))
    # types that are recursive through a counted array: a path of one-element arrays nested far deeper than any random value
    # (a limit on the nesting of arrays, a recursion guard, a per-level cost would show here)
    for k, rep in enumerate(loaded):
        if batch.status.get(str(k)) != "ok":
            continue
        for ty in array_recursive(cases_spec[k].get("items") or []):
            if ty in tnames(k, rep):
                for depth in ((65, 200) if tier == "quick" else (64, 65, 130, 300, 1000)):
                    greqs.append("gendeep %d %s %d %d" % (k, ty, rng.below(1 << 30), depth))
                    gmeta.append((k, ty, 0, -1))
    gout = run_driver(spec_lines + greqs)[len(spec_lines):]
    # values that are one item over a declared maximum at one position, with all their bytes present
    oreqs, ometa = [], []
    for k, rep in enumerate(loaded):
        if batch.status.get(str(k)) != "ok":
            continue
        for ty in tnames(k, rep):
            for vk in range(1, 4 if tier == "quick" else 9):
                oreqs.append("genover %d %s %d %d" % (k, ty, rng.below(1 << 30), vk))
                ometa.append((k, ty))
    oout = run_driver(spec_lines + oreqs)[len(spec_lines):]
    reqs, meta = [], []

    def add(k, ty, lead, b, kind, base=None, expect=None, what=None, rl=None, tail=b""):
        # rl = (count, byte): the input is `b`, then `count` copies of `byte`, then `tail` (written `<hex>~<count>:<bb>~<hex>` on the wire
        # of the line protocol, expanded by the harness and by the model driver) — buffers and payloads far larger than a hex string should carry
        tok = (b.hex() if b else "-") + (("~%d:%02x" % rl) + ("~" + tail.hex() if tail else "") if rl else "")
        for fam in ("val", "ref"):
            reqs.append("dec %d %s %s %d %s" % (k, fam, ty, lead, tok))
            meta.append({"k": k, "fam": fam, "ty": ty, "lead": lead, "hex": tok if rl else b.hex(), "n": len(b) + (rl[0] if rl else 0) + len(tail),
                         "kind": kind, "base": base, "expect": expect, "what": what})

    nbase = 0
    for (k, ty, lead, j), line in zip(gmeta, gout):
        f = line.split("\t")
        if len(f) < 3:
            continue
        hx, expect, marks = f[0], f[1], f[2].split()
        if len(hx) > 400000:
            continue        # a value above 200 kB: its prefixes and mutations would dominate the whole chunk
        nbase += 1
        b = bytes.fromhex(hx)
        add(k, ty, lead, b, "valid", nbase, expect)
        suffix = bytes(rng.below(256) for _ in range(1 + rng.below(9)))
        add(k, ty, lead, b + suffix, "valid+suffix", nbase, expect)
        if j == 0 and len(b) <= 4096:
            # the same value at the head of a buffer far larger than itself (thresholds a programmer would pick: 4 KiB, 64 KiB, 1 MiB)
            big = rng.choice([4096 + 13, 65536 + 464, 65536 + 464, 65536 + 464, (1 << 20) + 5])
            add(k, ty, lead, b, "valid+suffix", nbase, expect, "big-suffix-%d" % big, rl=(big, rng.choice([0, 0x5a, 0xff])))
        if j == 0:
            # one opaque / string of the value made very large (payload sizes a programmer would special-case: 64 KiB, just above, 1 MiB):
            # the first unbounded length position the reference marks gets a payload of N bytes of `a`, the rest of the value follows
            for mk in marks:
                kind_, _, rest_ = mk.partition("@")
                f_ = rest_.split(":")
                if kind_ == "len" and f_[1] == "-" and not any(x.startswith("str@%d:" % (int(f_[0]) + 4)) for x in marks):
                    off = int(f_[0])      # an opaque (a string's content would be echoed in full by both sides)
                    old = int.from_bytes(b[off:off + 4], "big")
                    after = off + 4 + old + (-old) % 4
                    big = rng.choice([65536, 65536, 70001, (1 << 20) + 2])
                    add(k, ty, lead, b[:off] + big.to_bytes(4, "big"), "bigpayload", nbase, None, "payload-%d" % big, rl=(big, 0x61),
                        tail=b"\x00" * ((-big) % 4) + b[after:])
                    break
        if j == -1:
            continue        # the lead variant of the previous value: valid runs only
        if len(b) > 1200:
            # a large value: a few prefixes and targeted positions only
            for cut in sorted(set(rng.below(len(b)) for _ in range(6)) | {len(b) - 1, len(b) - 4}):
                add(k, ty, lead, b[:cut], "prefix", nbase)
            tg = targeted(b, rng.shuffle(marks)[:6], rng)
            for mb, exp, what in tg[:8]:
                add(k, ty, lead, mb, "targeted", nbase, exp, what)
            continue
        # strict prefixes (byte granularity)
        cuts = range(len(b)) if len(b) <= (40 if tier == "quick" else 160) else sorted(set(rng.below(len(b)) for _ in range(20)) | {len(b) - 1, len(b) - 2, len(b) - 3, len(b) - 4})
        for cut in cuts:
            add(k, ty, lead, b[:cut], "prefix", nbase)
        # positions the reference marks, with the demanded error
        tg = targeted(b, marks if len(marks) <= 24 else rng.shuffle(marks)[:24], rng)
        for mb, exp, what in tg:
            add(k, ty, lead, mb, "targeted", nbase, exp, what)
        # every 32-bit word replaced by boundary values
        nwords = len(b) // 4
        widx = range(nwords) if nwords <= (8 if tier == "quick" else 40) else sorted(set(rng.below(nwords) for _ in range(8)))
        for w in widx:
            orig = int.from_bytes(b[4 * w:4 * w + 4], "big")
            for val in BOUNDARY_WORDS + [orig + 1, max(orig - 1, 0)]:
                if val == orig or val > 0xFFFFFFFF:
                    continue
                if tier == "quick" and rng.below(3):
                    continue
                add(k, ty, lead, b[:4 * w] + val.to_bytes(4, "big") + b[4 * w + 4:], "word", nbase)
    for (k, ty), line in zip(ometa, oout):
        if line and line not in ("skip", "no-spec", "bad-op") and len(line) < 4000:
            add(k, ty, 0, bytes.fromhex(line), "targeted", None, "err InvalidLength", "over-max-present")
    # random word strings per type
    for k, rep in enumerate(loaded):
        if batch.status.get(str(k)) != "ok":
            continue
        for ty in tnames(k, rep):
            for _ in range(3 if tier == "quick" else 12):
                n = rng.below(9)
                ws = b"".join(rng.choice(BOUNDARY_WORDS + [4, 5, 8, 9]).to_bytes(4, "big") if rng.chance(3, 4) else bytes(rng.below(256) for _ in range(4)) for _ in range(n))
                ws += bytes(rng.below(256) for _ in range(rng.below(4)))
                add(k, ty, 0, ws, "random")
    # one word repeated: every count, length, marker and discriminant set to the same hostile value at every nesting level
    for k, rep in enumerate(loaded):
        if batch.status.get(str(k)) != "ok":
            continue
        for ty in tnames(k, rep):
            for word, nwords in ((0xFFFFFFFF, 16), (0xFFFFFFFF, 256), (1, 256), (2, 64)) + (((0xFFFFFFFF, 2048), (3, 1024)) if tier != "quick" else ()):
                add(k, ty, 0, word.to_bytes(4, "big") * nwords, "nested")
    # a count followed by zeros: W empty (or zero-valued) elements behind one count word — many instances of every nested counted
    # position in one message, each holding nothing (a reservation made per instance from anything but the count shows as a total)
    for k, rep in enumerate(loaded):
        if batch.status.get(str(k)) != "ok":
            continue
        for ty in tnames(k, rep):
            for w in (64, 1000):
                add(k, ty, 0, w.to_bytes(4, "big") + bytes(4 * 1024 if w == 64 else 16 * 1024), "count-then-zeros")
    # the decidable hypotheses of the specification-level theorems, evaluated by the model on every specification
    flags = []
    for line in run_driver(["outputok " + t3.hx(t) for t in texts]):
        flags.append(dict(f.split("=", 1) for f in line.split()[1:] if "=" in f) if line.startswith("ok") else {})
    impl = batch.run(reqs)
    model = run_driver(spec_lines + reqs)[len(spec_lines):]
    sizes = batch.run(["sizes %d" % k for k in range(len(texts))])
    for m, i, mo in zip(meta, impl, model):
        m["impl"], m["model"] = i, mo
    return {"cases": meta, "skipped_heavy": skipped_heavy, "specs": [{"text": c["text"], "flags": c["meta"]["flags"], "status": batch.status.get(str(k), "?"),
                                      "compile_errors": batch.compile_errors.get(str(k)), "loaded": loaded[k], "sizes": sizes[k],
                                      "arrrec": array_recursive(c.get("items") or []), "flags": flags[k], "oos": bool(c.get("oos"))}
                                     for k, c in enumerate(cases_spec)]}


def expected_valid(c):
    """value part the reference demands for a `valid` / `valid+suffix` case"""
    d, ws = c["expect"].rsplit(" ws=", 1)
    n = c.get("n", len(c["hex"]) // 2)
    if c["fam"] == "ref":
        rem = n - int(ws)
        return "ok %s rem=%d at=%s ws=%s" % (d, rem, "-" if rem == 0 else str(c["lead"] + int(ws)), ws)
    return "ok %s ws=%s" % (d, ws)


def spec_sizes(spec):
    """{type: size_of} from the harness' `sizes` reply"""
    out = {}
    for f in spec["sizes"].split()[1:]:
        n, _, v = f.partition("=")
        out[n] = int(v)
    return out


def allocs_ok(model_events, impl_raw, sizes):
    """the model's allocation log against the raw request sizes of the real run.  The model's events carry counts, not element
    types, so an event is matched against the request by element size (any declared size_of); a vector or box of a zero-sized type
    (a union with only void arms, ...) does not allocate, so such an event may also match nothing.  Backtracking, memoised."""
    szs = set(sizes.values())
    nz = sorted(x for x in szs if x > 0)
    zst = 0 in szs
    evs = []
    for ev in model_events:
        kind, _, n = ev.partition(":")
        evs.append((kind, int(n) if n else 0))
    raw = [int(x) for x in impl_raw]
    import functools, sys
    sys.setrecursionlimit(max(10000, 4 * (len(evs) + len(raw)) + 100))

    @functools.lru_cache(maxsize=None)
    def go(i, j):
        if i == len(evs):
            return j == len(raw)
        kind, n = evs[i]
        if kind == "vec":
            if n == 0:
                return go(i + 1, j)
            if j < len(raw) and raw[j] > 0 and raw[j] % n == 0 and raw[j] // n in szs and go(i + 1, j + 1):
                return True
            return zst and go(i + 1, j)
        if kind == "str":
            if n == 0:
                return go(i + 1, j)
            return j < len(raw) and n <= raw[j] <= max(8, n + 1) and go(i + 1, j + 1)
        if kind == "box":
            if j < len(raw) and raw[j] in szs and raw[j] > 0 and go(i + 1, j + 1):
                return True
            return zst and go(i + 1, j)
        return False
    return go(0, 0)
