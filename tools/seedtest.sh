#!/bin/sh
# usage: tools/seedtest.sh <patch.diff> <prop> [<prop>...]   — applies the patch to /repo, runs the checks, reverts.
set -u
patch="$1"; shift
cd /repo || exit 2
git status --short | grep -q . && { echo "/repo is not clean"; exit 2; }
git apply "$patch" || { echo "patch does not apply"; exit 2; }
echo "== baseline tests with the patch:"; CARGO_NET_OFFLINE=true cargo test --offline 2>&1 | grep "test result" | head -1
for p in "$@"; do
  echo "== $p"; (cd /verif && ./check "$p" 2>&1 | grep -E "VIOLATION|KNOWN|quick:|thorough:" | head -8)
done
git checkout -- . ; git status --short
