#!/usr/bin/env python3
"""Regenerates MANIFEST.json from the table below (kept valid at all times)."""
import json, os
V = os.path.dirname(os.path.dirname(os.path.abspath(__file__)))
props = [json.loads(l) for l in open(os.path.join(V, "properties.jsonl"))]

CLAIMS = {
 "C10": ("Lean theorems give the complete functional contract of every reader and size helper of the runtime model, for all buffers; the model is tied to header.rs by an exhaustive three-way comparison (real readers / model / closed forms) on the boundary grid",
         "trusted: Lean kernel; axioms propext, Classical.choice, Quot.sound; the bytes crate is modelled (tied by T4); usize as Nat",
         "Lean 4 proof + exhaustive differential correspondence (T4)", "DESIGN.md §6 C10"),
 "C12": ("Lean theorems: the type/constant indexes return exactly what was inserted (nothing dropped or invented), constructors characterised in Fx.Walk; the whole front end (PEG interpreter over the grammar translated from xdr.pest, walk, indexes) is an executable Lean model compared three ways (Ast::new dump / model dump / record-for-record image of the declaration model) on generated specifications under random layouts and orders. Partial: the text-to-token stage is modelled and tied, not proved",
         "trusted: Lean kernel and the three standard axioms; pest's semantics modelled in Fx/Peg.lean (tied by T3); tools/pest2lean.py; tools/specgen.py, tools/t3.py (reference ast_of)",
         "Lean 4 proof + three-way differential correspondence (T3)", "DESIGN.md §6 C12"),
 "C13": ("Lean theorem for every item list: membership in the generic index = opaque-reachability (soundness, completeness, termination, order-independence), about the same loop the code runs; tied by exhaustive small dependency graphs in every order and long adversarial chains",
         "trusted: Lean kernel and the three standard axioms; HashSet modelled as membership; front-end model tied by T3; parameter lists of the emitted impls are covered by the generator ties (T1/T2) as they come on line",
         "Lean 4 proof (least fixpoint = reachability) + differential correspondence (T3)", "DESIGN.md §6 C13"),
 "C14": ("Lean theorems characterise each panic site of the front end (which token shapes reach it, which never do) and prove the index loop terminates; every generated, out-of-subset and mutated text is run through Ast::new and Generator::generate and the outcome class and panic site are compared with the model. The property is false on the current tree at the recorded K6 sites (known findings); any other panic is a violation",
         "trusted: Lean kernel and the three standard axioms; pest modelled (PEG totality not proved); panics observed by catch_unwind + hook",
         "Lean 4 proof (panic-site characterisation) + differential correspondence (T3)", "DESIGN.md §6 C14"),
 "C01": ("Lean theorem C01_roundtrip_supported, for every specification in the decidable supported subset (Supported a), every declared type, every well-typed value x, every suffix and offset: the generated decoder (emitters run inside Lean: generateModule a = ok m) applied to enc(x) ++ s returns exactly the documented Rust value repr(x) and leaves the cursor just after the encoding; unions included (C06_match_selects is proved, not assumed). The emitters, plan evaluator and runtime are an executable Lean model compared with the compiled generated decoders on reference-generated values of every declared type (both families), and the driver reports Supported for each campaign specification (98 of 102; the others use fall-through into a data default)",
         "trusted: Lean kernel, standard axioms; Rust semantics of the emitted subset modelled (Fx/Eval.lean, tied by T2); reference Fx/Xdr.lean is my reading of RFC 4506 + README; rustc/cargo",
         "Lean 4 proof + differential correspondence on compiled generated code (T2) + independent reference", "DESIGN.md §6 C01"),
 "C02": ("Lean theorems: C02_consumed_all — for ALL byte strings (valid or not), every plan satisfying the decidable Plans.SizeExact', a successful decode consumes exactly wire_size() of the value it returns; C02_consumed_all_supported — Supported a implies SizeExact' of the emitted plans; every RFC encoding is 4-aligned; array stepping exact; K1 witnesses (bare opaque) proved as counter-examples outside the subset. Tie: wire_size() of every decoded value and bytes consumed vs |enc(x)| from the reference and vs the model's evaluation of the emitted size impls",
         "as C01", "Lean 4 proof + differential correspondence (T2) + independent reference", "DESIGN.md §6 C02"),
 "C03": ("Lean theorems for ALL byte strings and all plans: the two families are one emitter under two templates (equal plans, equal results); a successful decode leaves the cursor advanced by k <= remaining with the remaining bytes untouched (induction over the five mutual evaluators). Tie: both families on every input of the campaign, suffix and leading-offset variants",
         "as C01", "Lean 4 proof (induction on fuel over the evaluator) + differential correspondence (T2)", "DESIGN.md §6 C03"),
 "C04": ("Lean theorems for ALL byte strings, every fuel: C04_no_panic — no evaluator reaches panic/abort under the decidable Plans.Ok (induction over the five mutual evaluators on one lemma per reader); C04_no_panic_supported — Supported a implies Plans.Ok of the emitted plans; frozen pre-fix reader kept as a proved counter-example. Tie: outcome class on every strict prefix, boundary word, targeted invalid word and random input; optional chains to depth 10^4 (10^5 thorough). Partial: stack depth is outside the model (finding K5)",
         "as C01; panics observed by catch_unwind, aborts by child-process death", "Lean 4 proof (no-panic invariant) + differential correspondence (T2, T4)", "DESIGN.md §6 C04"),
 "C05": ("Lean theorems (reader level, all buffers): over-max and over-available lengths/counts are InvalidLength, length = max accepted, the emitter's bound equals the declared literal/constant. Tie + reference: every strict prefix rejected; at every bounded position marked by the reference the count word set above the maximum must give InvalidLength",
         "as C01", "Lean 4 proof + differential correspondence (T2) + reference-marked hostile inputs", "DESIGN.md §6 C05"),
 "C06": ("Lean theorems: C06_match_selects — for every supported specification, every union and every discriminant word the switch type admits, the emitted match selects exactly the declared arm (numerals, constants, enum members, TRUE/FALSE, fall-through groups, default only when no label denotes the word); C06_undeclared_rejected — with no default the decoder returns UnknownVariant(d as i32); bool / optional-marker / enum strictness for every 32-bit word with the documented payloads; UTF-8 check. Tie + reference: undeclared values at every bool/marker/enum/discriminant/string position the reference marks, and the arm selected by every declared label on valid values",
         "as C01; UTF-8 validity is a DFA in Lean compared with String::from_utf8 in T4", "Lean 4 proof + differential correspondence (T2) + reference-marked hostile inputs", "DESIGN.md §6 C06"),
 "C08": ("Lean theorem C08_views for ALL byte strings and all plans: every opaque leaf of every successfully decoded value is the window of the input at its wire offset (value-level invariant by induction over the evaluators; combined with C01 the offset is the one the encoding assigns). Tie: as_ptr() of every opaque leaf of every successfully decoded value, relative to the input allocation, equals the offset the reference computes; inputs sit at a leading offset inside a larger allocation",
         "as C01; pointer provenance observed with as_ptr()", "Lean 4 proof + pointer-level differential correspondence (T2)", "DESIGN.md §6 C08"),
 "C09": ("Lean theorem C09_requests_bounded for ALL byte strings and plans: every allocation request logged during a decode (successful or not) is bounded by the bytes present at that point (reservation = min(count, remaining), string copies = payload present). Tie: counting global allocator around every decode: each request <= size_of(largest type) x bytes present, and the request log equals the model's event log",
         "as C01; allocator behaviour of Vec::with_capacity / collect / Box::new observed, not modelled beyond request sizes", "Lean 4 proof + allocation-log differential correspondence (T2, T4)", "DESIGN.md §6 C09"),
 "C07": ("rustc is not modelled: a decidable Lean judgement outputOk (names resolve, parameter lists, field/payload types of every decode expression, variant arity, pattern typing, casts, identifier hygiene, no infinite type) stands in for it and is validated against rustc's verdict in both directions on a mixed batch every run; Lean theorems give the structural API (three impls per declaration under its own name, identical families, consistent parameters). Tie: every supported specification of the campaign is compiled with both derive lines together with Dump impls and a dispatcher that name every documented field, variant and trait impl. Partial: outputOk ~ rustc is empirical",
         "trusted: Lean kernel, standard axioms; rustc/cargo; harness/backgen's reading of the documented shape", "Lean 4 proof (structural API) + rustc as oracle + judgement validated against rustc", "DESIGN.md §6 C07"),
 "C11": ("Lean theorems: sorted-insert folds commute on distinct keys, hence the type index is invariant under permutation of the declarations; generic-index membership is permutation-invariant with no hypothesis (via C13). Tie: each declaration model printed under random layouts and orders gives token-identical output and identical Ast; 8 fresh processes byte-identical; repeated/interleaved calls on one Generator; model compared on every text (T1). Partial: the lift from `skip absorbs layout` to the token tree goes through the PEG interpreter, which is tied (T3), not proved",
         "trusted: Lean kernel, standard axioms; BTreeMap/HashSet modelled as sorted list / membership; pest modelled", "Lean 4 proof (permutation invariance) + metamorphic differential correspondence (T1, T3)", "DESIGN.md §6 C11"),
 "C15": ("Lean theorems: stdout and exit status of the CLI as a function of what the library does per argument (all ok: concatenation in argument order, exit 0; first failure: earlier outputs only, exit non-zero; no arguments: usage, non-zero). Tie: the binary built from the working tree on argument lists of 0-3 paths of every kind, stdout compared byte for byte with the library's own results and with the model",
         "trusted: Lean kernel; std::env::args, read_to_string, println!, exit codes modelled (Fx/Cli.lean, tied by T5)", "Lean 4 proof + differential correspondence with the built binary (T5)", "DESIGN.md §6 C15"),
}
PENDING = "check under construction in this session (design in DESIGN.md); will be claimed, not a limit of the technique"

m = {
 "version": 1,
 "setup_cmd": "./setup.sh",
 "hooks": {"guard": "fastxdr_verif", "enable": "none needed: the checks use only fastxdr's public API (Ast indexes, Generator, the CLI binary) and the generated code",
           "baseline_off_cmd": "cd /repo && cargo test --workspace --no-fail-fast --offline", "source_commits": [], "add_only": True},
 "engines": [{"name": "lean-proof+correspondence", "path": "/verif/check", "serves_properties": sorted(CLAIMS),
              "kind_free_text": "Lean 4 theorems about a hand-written executable model (lean/Fx), tied to /repo by differential runs of the model driver against Rust harnesses"}],
 "checks": [], "not_applicable": [],
 "notes": "See DESIGN.md. Repairs made to /repo: see known_findings.json (fixed entries).",
}
for p in props:
    i = p["id"]
    if i in CLAIMS:
        text, note, tech, ref = CLAIMS[i]
        m["checks"].append({
            "property_id": i, "quick_cmd": "./check %s --tier quick" % i, "thorough_cmd": "./check %s --tier thorough" % i,
            "evidence_file": "/verif/evidence/%s.json" % i, "replay_cmd_template": "./check %s --replay {path}" % i,
            "engine": "lean-proof+correspondence",
            "level_claimed": {"category": "proof", "text": text, "design_ref": ref},
            "level_note": note, "technique": tech})
    else:
        m["not_applicable"].append({"property_id": i, "reason": PENDING})
json.dump(m, open(os.path.join(V, "MANIFEST.json"), "w"), indent=1)
