#!/usr/bin/env python3
"""Regenerates MANIFEST.json from the table below (kept valid at all times)."""
import json, os
V = os.path.dirname(os.path.dirname(os.path.abspath(__file__)))
props = [json.loads(l) for l in open(os.path.join(V, "properties.jsonl"))]

CLAIMS = {
 "C10": ("Lean theorems give the complete functional contract of every reader and size helper of the runtime model, for all buffers; the model is tied to header.rs by an exhaustive three-way comparison (real readers / model / closed forms) on the boundary grid",
         "trusted: Lean kernel; axioms propext, Classical.choice, Quot.sound; the bytes crate is modelled (tied by T4); usize as Nat",
         "Lean 4 proof + exhaustive differential correspondence (T4)", "DESIGN.md §6 C10"),
 "C12": ("Lean theorems: the type/constant indexes return exactly what was inserted (nothing dropped or invented), constructors characterised in Fx.Walk; the whole front end (PEG interpreter over the grammar translated from xdr.pest, walk, indexes) is an executable Lean model compared three ways (Ast::new dump / model dump / record-for-record image of the declaration model) on generated specifications under random layouts and orders. Partial: the text-to-token stage is modelled and tied, not proved",
         "trusted: Lean kernel and the three standard axioms; pest's semantics modelled in Fx/Peg.lean (tied by T3); tools/pest2lean.py; tools/specgen.py, tools/t3.py (reference ast_of)",
         "Lean 4 proof + three-way differential correspondence (T3)", "DESIGN.md §6 C12"),
 "C13": ("Lean theorem for every item list: membership in the generic index = opaque-reachability (soundness, completeness, termination, order-independence), about the same loop the code runs; tied by exhaustive small dependency graphs in every order and long adversarial chains",
         "trusted: Lean kernel and the three standard axioms; HashSet modelled as membership; front-end model tied by T3; parameter lists of the emitted impls are covered by the generator ties (T1/T2) as they come on line",
         "Lean 4 proof (least fixpoint = reachability) + differential correspondence (T3)", "DESIGN.md §6 C13"),
 "C14": ("Lean theorems characterise each panic site of the front end (which token shapes reach it, which never do) and prove the index loop terminates; every generated, out-of-subset and mutated text is run through Ast::new and Generator::generate and the outcome class and panic site are compared with the model. The property is false on the current tree at the recorded K6 sites (known findings); any other panic is a violation",
         "trusted: Lean kernel and the three standard axioms; pest modelled (PEG totality not proved); panics observed by catch_unwind + hook",
         "Lean 4 proof (panic-site characterisation) + differential correspondence (T3)", "DESIGN.md §6 C14"),
}
PENDING = "check under construction in this session (design in DESIGN.md); will be claimed, not a limit of the technique"

m = {
 "version": 1,
 "setup_cmd": "./setup.sh",
 "hooks": {"guard": "fastxdr_verif", "enable": "none needed: the checks use only fastxdr's public API (Ast indexes, Generator, the CLI binary) and the generated code",
           "baseline_off_cmd": "cd /repo && cargo test --workspace --no-fail-fast --offline", "source_commits": [], "add_only": True},
 "engines": [{"name": "lean-proof+correspondence", "path": "/verif/check", "serves_properties": sorted(CLAIMS),
              "kind_free_text": "Lean 4 theorems about a hand-written executable model (lean/Fx), tied to /repo by differential runs of the model driver against Rust harnesses"}],
 "checks": [], "not_applicable": [],
 "notes": "See DESIGN.md. Repairs made to /repo: see known_findings.json (fixed entries).",
}
for p in props:
    i = p["id"]
    if i in CLAIMS:
        text, note, tech, ref = CLAIMS[i]
        m["checks"].append({
            "property_id": i, "quick_cmd": "./check %s --tier quick" % i, "thorough_cmd": "./check %s --tier thorough" % i,
            "evidence_file": "/verif/evidence/%s.json" % i, "replay_cmd_template": "./check %s --replay {path}" % i,
            "engine": "lean-proof+correspondence",
            "level_claimed": {"category": "proof", "text": text, "design_ref": ref},
            "level_note": note, "technique": tech})
    else:
        m["not_applicable"].append({"property_id": i, "reason": PENDING})
json.dump(m, open(os.path.join(V, "MANIFEST.json"), "w"), indent=1)
