#!/usr/bin/env python3
"""Shared machinery for the fastxdr checks: builds, drivers, audit, evidence, verdicts."""
import fcntl, hashlib, json, os, re, subprocess, sys, time

VERIF = os.path.dirname(os.path.dirname(os.path.abspath(__file__)))
REPO = os.environ.get("FX_REPO", "/repo")
LEAN = os.path.join(VERIF, "lean")
WORK = os.path.join(VERIF, "work")
EVID = os.path.join(VERIF, "evidence")
REPLAYS = os.path.join(VERIF, "replays")
DRV = os.path.join(LEAN, ".lake", "build", "bin", "fxdrv")
ACCEPTED_AXIOMS = {"propext", "Classical.choice", "Quot.sound"}
FORBIDDEN = re.compile(r"\b(sorry|admit|native_decide|bv_decide|implemented_by|unsafe)\b|^\s*axiom\s|maxHeartbeats\s+0")

for d in (WORK, EVID, REPLAYS):
    os.makedirs(d, exist_ok=True)

ENV = dict(os.environ, CARGO_NET_OFFLINE="true")


class Lock:
    def __init__(self, name):
        self.path = os.path.join(WORK, name + ".lock")

    def __enter__(self):
        self.f = open(self.path, "w")
        fcntl.flock(self.f, fcntl.LOCK_EX)
        return self

    def __exit__(self, *a):
        fcntl.flock(self.f, fcntl.LOCK_UN)
        self.f.close()


def sh(cmd, cwd=None, inp=None, timeout=None, env=None):
    p = subprocess.run(cmd, cwd=cwd, input=inp, capture_output=True, text=True, timeout=timeout, env=env or ENV)
    return p.returncode, p.stdout, p.stderr


# ---------------------------------------------------------------- Lean side

def regen_grammar():
    """T0: Fx/Grammar.lean is regenerated from /repo/src/xdr.pest on every run."""
    tool = os.path.join(VERIF, "tools", "pest2lean.py")
    if not os.path.exists(tool):
        return True, ""
    rc, out, err = sh([sys.executable, tool, os.path.join(REPO, "src", "xdr.pest"),
                       os.path.join(LEAN, "Fx", "Grammar.lean")])
    return rc == 0, out + err


def lake_build(targets):
    """Returns (ok, log). Builds the named Lean modules and the driver."""
    with Lock("lake"):
        ok, log = regen_grammar()
        if not ok:
            return False, "pest2lean failed: " + log
        rc, out, err = sh(["lake", "build"] + list(targets) + ["fxdrv"], cwd=LEAN, timeout=3600)
        return rc == 0, out + err


def strip_comments(src):
    # remove /- ... -/ (nested) and -- ... comments
    out, i, depth = [], 0, 0
    while i < len(src):
        if src.startswith("/-", i):
            depth += 1
            i += 2
        elif depth and src.startswith("-/", i):
            depth -= 1
            i += 2
        elif depth:
            if src[i] == "\n":
                out.append("\n")
            i += 1
        elif src.startswith("--", i):
            while i < len(src) and src[i] != "\n":
                i += 1
        elif src.startswith("'\"'", i):
            i += 3
        elif src.startswith("'\\\"'", i):
            i += 4
        elif src[i] == '"':
            # string literal: keep the quotes, drop the contents
            out.append('""')
            i += 1
            while i < len(src) and src[i] != '"':
                if src[i] == "\\":
                    i += 1
                if i < len(src) and src[i] == "\n":
                    out.append("\n")
                i += 1
            i += 1
        else:
            out.append(src[i])
            i += 1
    return "".join(out)


def forbidden_tokens():
    """grep for sorry/admit/axiom/native_decide/... in every Lean source, comments stripped."""
    hits = []
    for root, _, files in os.walk(LEAN):
        if ".lake" in root:
            continue
        for f in files:
            if f.endswith(".lean"):
                p = os.path.join(root, f)
                for n, line in enumerate(strip_comments(open(p).read()).split("\n"), 1):
                    if FORBIDDEN.search(line):
                        hits.append("%s:%d: %s" % (os.path.relpath(p, LEAN), n, line.strip()))
    return hits


def theorems_of(module):
    """(namespace-qualified) names of the theorems stated in Fx/Props/<module>.lean."""
    p = os.path.join(LEAN, "Fx", "Props", module + ".lean")
    src = strip_comments(open(p).read())
    ns = []
    names = []
    examples = 0
    for line in src.split("\n"):
        m = re.match(r"\s*namespace\s+(\S+)", line)
        if m:
            ns.append(m.group(1))
        m = re.match(r"\s*end\s+(\S+)", line)
        if m and ns and ns[-1] == m.group(1):
            ns.pop()
        m = re.match(r"\s*(?:private\s+)?theorem\s+([^\s:({\[]+)", line)
        if m:
            names.append(".".join(ns + [m.group(1)]))
        if re.match(r"\s*example\b", line):
            examples += 1
    return names, examples


def axiom_audit(module):
    """#print axioms on every theorem of the property module. Returns (ok, per-theorem dict, log)."""
    names, examples = theorems_of(module)
    os.makedirs(os.path.join(WORK, "audit"), exist_ok=True)
    f = os.path.join(WORK, "audit", module + ".lean")
    with open(f, "w") as w:
        w.write("import Fx.Props.%s\n" % module)
        for n in names:
            w.write("#print axioms %s\n" % n)
    with Lock("lake"):
        rc, out, err = sh(["lake", "env", "lean", f], cwd=LEAN, timeout=1800)
    res = {}
    text = out + err
    flat = re.sub(r"\s+", " ", text)
    for n in names:
        m = re.search(r"'%s' depends on axioms: \[([^\]]*)\]" % re.escape(n), flat)
        if m:
            res[n] = [a.strip() for a in m.group(1).split(",") if a.strip()]
        elif re.search(r"'%s' does not depend on any axioms" % re.escape(n), flat):
            res[n] = []
        else:
            res[n] = None
    bad = [n for n, ax in res.items() if ax is None or not set(ax) <= ACCEPTED_AXIOMS]
    return rc == 0 and not bad, res, examples, text


# ---------------------------------------------------------------- Rust side

def cargo_build(crate, bins=None, extra=None):
    d = os.path.join(VERIF, "harness", crate)
    lockfile = os.path.join(d, "Cargo.lock")
    with Lock("cargo_" + crate.replace("/", "_")):
        # Cargo.lock is a copy of /repo's (generate-lockfile cannot run offline)
        src = os.path.join(REPO, "Cargo.lock")
        if not os.path.exists(lockfile) and os.path.exists(src):
            import shutil
            shutil.copy(src, lockfile)
        cmd = ["cargo", "build", "--offline", "--quiet"] + (extra or [])
        rc, out, err = sh(cmd, cwd=d, timeout=3600)
        return rc == 0, out + err


def _limit_memory():
    """harness processes run the code under test: cap their address space so that a runaway allocation aborts that process
    (reported as `abort` for the request) instead of exhausting the machine"""
    import resource
    cap = int(os.environ.get("FX_HARNESS_MEM_GB", "8")) << 30
    resource.setrlimit(resource.RLIMIT_AS, (cap, cap))


def run_lines(cmd, lines, cwd=None, timeout=3600, restart_on_death=True):
    """Feed request lines to a line-protocol process; one reply per request.
    If the process dies (abort, stack overflow) the request it died on is
    answered `abort <signal>` and the rest is fed to a fresh process."""
    replies = []
    i = 0
    deaths = 0
    while i < len(lines):
        chunk = lines[i:]
        try:
            p = subprocess.run(cmd, input="\n".join(chunk) + "\n", capture_output=True, text=True, cwd=cwd,
                               timeout=timeout, env=ENV, preexec_fn=(None if cmd[0] == DRV else _limit_memory))
        except subprocess.TimeoutExpired:
            # the process as a whole did not finish (a model driver built from a grammar that is no longer a DAG can take
            # exponential time): every unanswered request is answered as such and shows as a broken tie
            replies.extend(["abort no-answer (process time limit)"] * (len(lines) - len(replies)))
            break
        got = p.stdout.split("\n")
        if got and got[-1] == "":
            got.pop()
        if len(got) >= len(chunk):
            replies.extend(got[:len(chunk)])
            break
        # died while answering request i+len(got)
        replies.extend(got)
        replies.append("abort timeout (no answer within the harness' per-request limit)" if p.returncode == 124 else "abort rc=%d" % p.returncode)
        deaths += 1
        timeouts = sum(1 for r_ in replies if r_.startswith("abort timeout"))
        i += len(got) + 1
        # a tree on which many requests do not answer would otherwise cost 20 s per request: after a few, the rest is not run
        # (each unanswered request is already a reported case)
        if not restart_on_death or deaths > 200 or timeouts >= 6:
            replies.extend(["abort (not run)"] * (len(lines) - len(replies)))
            break
    return replies


def run_driver(lines, timeout=None):
    # a healthy quick-tier driver run takes a minute or two at most; the thorough tier feeds it chunks of the campaign
    if timeout is None:
        timeout = 900 if os.environ.get("FX_TIER", "quick") == "quick" else 7200
    return run_lines([DRV], lines, timeout=timeout, restart_on_death=False)


def repo_tree_hash():
    h = hashlib.sha256()
    for root, dirs, files in os.walk(os.path.join(REPO, "src")):
        dirs.sort()
        for f in sorted(files):
            p = os.path.join(root, f)
            h.update(p.encode())
            h.update(open(p, "rb").read())
    for f in ("Cargo.toml",):
        h.update(open(os.path.join(REPO, f), "rb").read())
    return h.hexdigest()[:16]


# ---------------------------------------------------------------- PRNG (one stream per run)

class Rng:
    """splitmix64; every random choice of a run derives from VERIF_SEED."""

    def __init__(self, seed):
        self.s = seed & 0xFFFFFFFFFFFFFFFF

    def next(self):
        self.s = (self.s + 0x9E3779B97F4A7C15) & 0xFFFFFFFFFFFFFFFF
        z = self.s
        z = ((z ^ (z >> 30)) * 0xBF58476D1CE4E5B9) & 0xFFFFFFFFFFFFFFFF
        z = ((z ^ (z >> 27)) * 0x94D049BB133111EB) & 0xFFFFFFFFFFFFFFFF
        return z ^ (z >> 31)

    def below(self, n):
        return self.next() % n if n > 0 else 0

    def chance(self, num, den):
        return self.below(den) < num

    def choice(self, xs):
        return xs[self.below(len(xs))]

    def shuffle(self, xs):
        xs = list(xs)
        for i in range(len(xs) - 1, 0, -1):
            j = self.below(i + 1)
            xs[i], xs[j] = xs[j], xs[i]
        return xs

    def fork(self, tag):
        return Rng(self.next() ^ int(hashlib.sha256(tag.encode()).hexdigest()[:16], 16))


# ---------------------------------------------------------------- verdicts and evidence

def load_known():
    p = os.path.join(VERIF, "known_findings.json")
    if not os.path.exists(p):
        return []
    return json.load(open(p)).get("findings", [])


class Report:
    def __init__(self, prop, tier, seed):
        self.prop, self.tier, self.seed = prop, tier, seed
        self.t0 = time.time()
        self.violations = []      # (kind, replay dict)
        self.known = {}           # finding id -> count
        self.cov = {"evaluations": 0, "distinct_nontrivial": 0, "samples": [], "rule": ""}
        self.assumptions = []
        self.notes = []

    def known_finding(self, fid, what):
        if fid not in self.known:
            self.known[fid] = [0, what]
        self.known[fid][0] += 1

    def violation(self, replay, found_input=True):
        self.violations.append((replay, found_input))

    def finish(self, level="proof"):
        wall = time.time() - self.t0
        for fid, (n, what) in sorted(self.known.items()):
            print("KNOWN-FINDING: property=%s %s: %s (%d cases this run)" % (self.prop, fid, what, n))
        rc = 0
        shown = 0
        for replay, found in self.violations:
            h = hashlib.sha256(json.dumps(replay, sort_keys=True).encode()).hexdigest()[:12]
            path = os.path.join(REPLAYS, "%s-%s.json" % (self.prop, h))
            replay = dict(replay, property=self.prop, seed=self.seed, tier=self.tier)
            json.dump(replay, open(path, "w"), indent=1)
            if shown < 10:
                print("VIOLATION property=%s replay=%s%s" % (self.prop, path, "" if found else " no-failing-input-found"))
            shown += 1
            rc = 1
        ev = {
            "property_id": self.prop, "tier": self.tier, "seed": self.seed, "level": level,
            "coverage": self.cov, "assumptions": self.assumptions, "wall_s": round(wall, 2),
            "violations": len(self.violations),
            "known_findings": {k: v[0] for k, v in self.known.items()},
            "notes": self.notes, "repo_tree": repo_tree_hash(),
        }
        json.dump(ev, open(os.path.join(EVID, self.prop + ".json"), "w"), indent=1)
        print("%s %s: %s in %.1fs (%d evaluations, %d obligations)" % (
            self.prop, self.tier, "FAIL" if rc else "ok", wall, self.cov.get("evaluations", 0), self.cov.get("obligations", 0)))
        return rc


def proof_stage(rep, module, extra_targets=()):
    """Step 1 of every check: build the property's theorems, audit axioms, grep forbidden tokens.
    Returns True if all obligations are discharged."""
    ok, log = lake_build(["Fx.Props." + module] + list(extra_targets))
    names, examples = theorems_of(module)
    rep.cov["obligations"] = len(names) + examples
    rep.cov["checker_cmd"] = "cd /verif/lean && lake build Fx.Props.%s && lake env lean work/audit/%s.lean  (#print axioms on each theorem)" % (module, module)
    rep.cov["theorems"] = names
    rep.cov["trusted_base"] = [
        "Lean 4.33.0 kernel",
        "axioms accepted: propext, Classical.choice, Quot.sound (per-theorem list in coverage.axioms)",
        "the hand-written model Fx/*.lean, tied to /repo by the correspondence runs counted below",
        "tools/*.py and harness/* (correspondence drivers)",
    ]
    if not ok:
        rep.cov["discharged"] = 0
        bad = [l for l in log.split("\n") if "error" in l][:5]
        rep.violation({"kind": "proof-does-not-check", "module": "Fx.Props." + module, "log": bad}, found_input=False)
        return False
    aok, axioms, examples, text = axiom_audit(module)
    rep.cov["axioms"] = axioms
    hits = forbidden_tokens()
    if not aok or hits:
        rep.cov["discharged"] = sum(1 for a in axioms.values() if a is not None and set(a) <= ACCEPTED_AXIOMS)
        rep.violation({"kind": "axiom-audit-failed", "module": module, "axioms": axioms, "forbidden": hits[:10],
                       "log": text[-2000:]}, found_input=False)
        return False
    if rep.tier == "thorough":
        # independent re-check of the compiled module (and everything it imports) by the toolchain's own .olean checker
        rc, out, err = sh(["lake", "env", "leanchecker", "Fx.Props." + module], cwd=LEAN, timeout=3600)
        rep.cov["leanchecker"] = "ok" if rc == 0 else "FAILED"
        if rc != 0:
            rep.cov["discharged"] = 0
            rep.violation({"kind": "leanchecker-rejects", "module": "Fx.Props." + module, "log": (out + err)[-2000:]}, found_input=False)
            return False
    rep.cov["discharged"] = len(names) + examples
    return True
