#!/usr/bin/env python3
"""./check <property> [--tier quick|thorough] [--replay file]"""
import argparse, importlib, sys, os
sys.path.insert(0, os.path.dirname(os.path.abspath(__file__)))
from lib import *


def main():
    ap = argparse.ArgumentParser()
    ap.add_argument("prop")
    ap.add_argument("--tier", default=os.environ.get("VERIF_TIER", "quick"))
    ap.add_argument("--replay")
    a = ap.parse_args()
    tier = a.tier if a.tier in ("quick", "thorough") else "quick"
    os.environ["FX_TIER"] = tier
    seed = int(os.environ.get("VERIF_SEED", "1") or "1")
    mod = importlib.import_module("props." + a.prop.lower())
    rep = Report(a.prop, tier, seed)
    if a.replay:
        sys.exit(mod.replay(rep, json.load(open(a.replay))))
    try:
        mod.check(rep, tier, Rng(seed))
    except Exception as e:          # the machinery itself failed on this tree: the property is not shown to hold
        import traceback
        rep.violation({"kind": "check-did-not-complete", "exception": repr(e)[:500], "traceback": traceback.format_exc()[-1500:]}, found_input=False)
    sys.exit(rep.finish())


if __name__ == "__main__":
    main()
