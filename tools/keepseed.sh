#!/bin/sh
# usage: tools/keepseed.sh <worktree> <seed-id> <property> "<caught by>"  — confirms the demonstration with and without the change and files it under /verif/seeded/<seed-id>/
set -u
wt="$1"; id="$2"; prop="$3"; caught="$4"
cd "$wt" || exit 2
export CARGO_NET_OFFLINE=true
rundemo() { if [ -f demo/run.sh ]; then sh demo/run.sh; else (cd demo && cargo run --offline -q); fi; }
with_rc=0; rundemo >/tmp/seed_with.log 2>&1 || with_rc=$?
tests_with=$(cargo test --offline 2>&1 | grep "test result" | head -1)
git diff -- src > /tmp/keepseed_$$.diff; git apply -R /tmp/keepseed_$$.diff
without_rc=0; rundemo >/tmp/seed_without.log 2>&1 || without_rc=$?
git apply /tmp/keepseed_$$.diff; rm -f /tmp/keepseed_$$.diff
echo "$id: demo with change rc=$with_rc, without rc=$without_rc; tests with change: $tests_with"
d=/verif/seeded/$id
mkdir -p "$d/demo"
git diff -- src > "$d/patch.diff"
cp -r demo/Cargo.toml demo/src "$d/demo/" 2>/dev/null
[ -f demo/run.sh ] && cp demo/run.sh "$d/demo/"
[ -f demo/build.rs ] && cp demo/build.rs "$d/demo/"
[ -f seed_notes.md ] && cp seed_notes.md "$d/notes.md"
python3 - "$d" "$id" "$prop" "$caught" "$with_rc" "$without_rc" "$tests_with" <<'PY'
import json, sys
d, sid, prop, caught, w, wo, tests = sys.argv[1:8]
json.dump({"id": sid, "breaks_property": prop, "needs_to_manifest": open(d + "/notes.md").read()[:1500] if __import__("os").path.exists(d + "/notes.md") else "",
           "confirmed": {"demo_exit_with_change": int(w), "demo_exit_without_change": int(wo), "unit_tests_with_change": tests,
                         "commands": ["cd <worktree>/demo && cargo run --offline", "git diff -- src > p.diff; git apply -R p.diff; cargo run --offline; git apply p.diff", "cargo test --offline"]},
           "caught_by": caught}, open(d + "/meta.json", "w"), indent=1)
PY
