"""T4: the runtime readers of header.rs, exhaustively on a grid, three ways:
real readers (harness/rt) vs the Lean model (fxdrv `rt …`) vs closed forms
written here independently of both (the reference used to look for a failing input)."""
import struct
from lib import *


def pad(n):
    return (4 - n % 4) % 4


def hexs(b):
    return b.hex() if b else "-"


def pat(n, salt=0):
    return bytes(((i * 37 + 11 + salt * 53) % 251) + 1 for i in range(n))


def be32(n):
    return struct.pack(">I", n)


def gen_requests(tier, rng):
    """Returns list of request strings (without the leading `rt `)."""
    N = 9 if tier == "quick" else 24
    maxes = ["-"] + [str(m) for m in range(0, N + 2)]
    reqs = []
    # scalars: every remaining r, several contents
    for op, w in (("u32", 4), ("i32", 4), ("f32", 4), ("bool", 4), ("u64", 8), ("i64", 8), ("f64", 8)):
        for r in range(0, N + 9):
            for salt in (0, 1):
                reqs.append("%s %s" % (op, hexs(pat(r, salt))))
            reqs.append("%s %s" % (op, hexs(b"\xff" * r)))
            reqs.append("%s %s" % (op, hexs(b"\x80" + b"\x00" * (r - 1) if r else b"")))
            reqs.append("%s @%d %s" % (op, 1 + r % 5, hexs(pat(r, 2))))
    for w in (0, 1, 2, 3, 255, 256, 0x10000, 0x1000000, 0x7fffffff, 0x80000000, 0xfffffffe, 0xffffffff):
        reqs.append("bool %s" % hexs(be32(w) + b"\x07"))
        reqs.append("bool %s" % hexs(be32(w)))
    # fixed opaque
    for n in range(0, N + 1):
        for r in range(0, N + 9):
            reqs.append("bytes %d %s" % (n, hexs(pat(r))))
        reqs.append("bytes %d @3 %s" % (n, hexs(pat(n + pad(n) + 2))))
    big = [1 << 16, (1 << 31) - 1, 1 << 31, (1 << 32) - 1]
    for n in big + [(1 << 63), (1 << 64) - 1, (1 << 64) - 2]:
        reqs.append("bytes %d %s" % (n, hexs(pat(7))))
    # counted opaque / string: count word, then r payload bytes
    for op in ("varbytes", "string"):
        for m in maxes:
            for n in range(0, N + 1):
                for r in range(0, N + 9):
                    reqs.append("%s %s %s" % (op, m, hexs(be32(n) + (pat(r) if op == "varbytes" else bytes(97 + i % 26 for i in range(r))))))
            for r in range(0, 4):
                reqs.append("%s %s %s" % (op, m, hexs(pat(r))))
            for n in big:
                reqs.append("%s %s %s" % (op, m, hexs(be32(n) + pat(6))))
        reqs.append("%s 5 @2 %s" % (op, hexs(be32(5) + b"hello\x00\x00\x00rest")))
    # strings: UTF-8 boundary cases (all 1-3 byte strings are covered by the thorough sweep below)
    utf = [b"\xc3\xa9", b"\xc3", b"\xe2\x82\xac", b"\xe2\x82", b"\xed\xa0\x80", b"\xed\x9f\xbf", b"\xf0\x9f\x98\x80",
           b"\xf0\x8f\xbf\xbf", b"\xf4\x8f\xbf\xbf", b"\xf4\x90\x80\x80", b"\xc0\x80", b"\xc1\xbf", b"\xe0\x9f\xbf", b"\xe0\xa0\x80",
           b"\xff", b"\x80", b"a\x80", b"\xf5\x80\x80\x80", b"ab\xc3\xa9cd", b"\xef\xbf\xbd", b"\x00", b"\x7f"]
    for u in utf:
        reqs.append("string - %s" % hexs(be32(len(u)) + u + b"\x00" * pad(len(u)) + b"\x55"))
    # the same boundary strings against a maximum below, at and above their length (which check comes first matters), all bytes present
    for u in utf:
        for m in sorted({0, max(len(u) - 1, 0), len(u), len(u) + 1}):
            reqs.append("string %d %s" % (m, hexs(be32(len(u)) + u + b"\x00" * pad(len(u)) + b"\x55")))
    # longer strings (a word-at-a-time scan has a tail): one bad byte at every position of strings of 13..23 bytes
    for ln in range(13, 24):
        base = bytes(48 + i % 10 for i in range(ln))
        reqs.append("string - %s" % hexs(be32(ln) + base + b"\x00" * pad(ln)))
        for pos in range(ln):
            for bad in (0x80, 0xff, 0xc3):
                u = base[:pos] + bytes([bad]) + base[pos + 1:]
                reqs.append("string - %s" % hexs(be32(ln) + u + b"\x00" * pad(ln)))
    cnt = 400 if tier == "quick" else 20000
    for _ in range(cnt):
        ln = 1 + rng.below(4)
        u = bytes(rng.choice([0x00, 0x41, 0x7f, 0x80, 0x8f, 0x90, 0x9f, 0xa0, 0xbf, 0xc0, 0xc1, 0xc2, 0xdf, 0xe0, 0xe1, 0xec, 0xed,
                              0xee, 0xef, 0xf0, 0xf1, 0xf3, 0xf4, 0xf5, 0xff]) for _ in range(ln))
        reqs.append("string - %s" % hexs(be32(len(u)) + u + b"\x00" * pad(len(u))))
    if tier == "thorough":
        for a in range(256):
            reqs.append("string - %s" % hexs(be32(1) + bytes([a]) + b"\x00" * 3))
            for b in range(256):
                reqs.append("string - %s" % hexs(be32(2) + bytes([a, b]) + b"\x00" * 2))
    # counted arrays: three element shapes
    for e in ("b1", "w4"):
        esz = 1 if e == "b1" else 4
        for m in maxes:
            for n in range(0, N + 1):
                for r in range(0, max(N + 9, (N + 2) * esz if tier == "thorough" else 0)):
                    if esz == 4 and r % 4 and r > 4 * n + 4:
                        continue
                    reqs.append("vararr %s %s %s" % (e, m, hexs(be32(n) + pat(r))))
            for n in big:
                reqs.append("vararr %s %s %s" % (e, m, hexs(be32(n) + pat(6))))
                reqs.append("vararr %s %s %s" % (e, m, hexs(be32(n))))
        reqs.append("vararr %s - @5 %s" % (e, hexs(be32(2) + pat(8) + b"zz")))
    for m in ("-", "0", "1", "2", "3"):
        for n in range(0, 4):
            for shape in range(0, 6 if tier == "quick" else 40):
                body = b""
                for k in range(n):
                    c = rng.below(4)
                    body += be32(c) + b"".join(be32(rng.below(1000)) for _ in range(c))
                for cut in sorted(set([len(body), max(0, len(body) - 1), max(0, len(body) - 4), rng.below(len(body) + 1)])):
                    reqs.append("vararr vs %s %s" % (m, hexs(be32(n) + body[:cut] + (b"\x09" if cut == len(body) and shape % 2 else b""))))
    for n in big:
        reqs.append("vararr vs - %s" % hexs(be32(1) + be32(n) + pat(8)))
    # size helpers
    for k in ("u8", "u32", "i32", "f32", "bool", "u64", "i64", "f64", "opt_none", "opt_u32", "opt_box_u64"):
        reqs.append("ws %s" % k)
    for k in ("bytes", "string", "string_u2", "string_u3", "string_u4", "string_mix", "vec_u8", "vec_u32", "vec_u64", "slice_u8", "slice_u32", "vec_string", "box_string",
              "slice_string", "slice_vec_u32", "vec_vec_u32", "opt_string", "box_vec_u32"):
        for n in range(0, N + 8):
            reqs.append("ws %s %d" % (k, n))
    return reqs


# ----------------------------------------------------------------------------
# closed forms (the reference): what RFC 4506 / the reader contracts say.

def parse(req):
    f = req.split()
    op = f[0]
    if op == "ws":
        return op, f[1:], 0, b""
    lead = 0
    args = f[1:-1]
    if args and args[-1].startswith("@"):
        lead = int(args[-1][1:])
        args = args[:-1]
    buf = b"" if f[-1] == "-" else bytes.fromhex(f[-1])
    return op, args, lead, buf


def at(lead, consumed, total):
    return "rem=%d at=%s" % (total - consumed, "-" if total == consumed else str(lead + consumed))


def showbytes(off, b):
    return "b@-:" if not b else "b@%d:%s" % (off, b.hex())


def utf8_ok(b):
    try:
        b.decode("utf-8")
        return True
    except UnicodeDecodeError:
        return False


def oracle(req):
    """Expected value part of the reply, or None when the contract leaves it open."""
    op, args, lead, buf = parse(req)
    r = len(buf)
    if op == "ws":
        k = args[0]
        n = int(args[1]) if len(args) > 1 else 0
        sz = {"u8": 1, "u32": 4, "i32": 4, "f32": 4, "bool": 4, "u64": 8, "i64": 8, "f64": 8, "opt_none": 4,
              "opt_u32": 8, "opt_box_u64": 12}
        if k in sz:
            return "ok %d" % sz[k]
        if k == "bytes":
            return "ok %d" % n
        if k in ("string", "box_string"):
            return "ok %d" % (4 + n + pad(n))
        if k.startswith("string_"):
            b = sum(i % 4 + 1 for i in range(n)) if k == "string_mix" else n * int(k[-1])      # UTF-8 bytes, not characters
            return "ok %d" % (4 + b + pad(b))
        # elements of different sizes (0, 1, …, n-1 items each): the size of a slice / vector is the sum over its elements
        if k == "slice_string":
            x = sum(4 + i + pad(i) for i in range(n)); return "ok %d" % (x + pad(x))
        if k == "slice_vec_u32":
            x = sum(4 + 4 * i for i in range(n)); return "ok %d" % (x + pad(x))
        if k == "vec_vec_u32":
            x = sum(4 + 4 * i for i in range(n)); return "ok %d" % (4 + x + pad(x))
        if k == "opt_string":
            return "ok %d" % (4 + 4 + n + pad(n))
        if k == "box_vec_u32":
            return "ok %d" % (4 + 4 * n)
        if k.startswith("vec_") or k.startswith("slice_"):
            if k == "vec_string":
                x = sum(4 + i + pad(i) for i in range(n))
            else:
                x = n * {"u8": 1, "u32": 4, "u64": 8}[k.split("_")[1]]
            return "ok %d" % ((4 if k.startswith("vec_") else 0) + x + pad(x))
        return None
    scal = {"u32": (4, ">I"), "i32": (4, ">i"), "u64": (8, ">Q"), "i64": (8, ">q")}
    if op in scal:
        w, fmt = scal[op]
        if r < w:
            return "err InvalidLength"
        return "ok %d %s" % (struct.unpack(fmt, buf[:w])[0], at(lead, w, r))
    if op in ("f32", "f64"):
        w = 4 if op == "f32" else 8
        if r < w:
            return "err InvalidLength"
        return "ok %s:%s %s" % (op, buf[:w].hex(), at(lead, w, r))
    if op == "bool":
        if r < 4:
            return "err InvalidLength"
        v = struct.unpack(">I", buf[:4])[0]
        if v > 1:
            return "err InvalidBoolean"
        return "ok %s %s" % ("true" if v else "false", at(lead, 4, r))
    if op == "bytes":
        n = int(args[0])
        if r < n + pad(n):
            return "err InvalidLength"
        return "ok %s %s" % (showbytes(lead, buf[:n]), at(lead, n + pad(n), r))
    if op in ("varbytes", "string", "vararr"):
        m = args[-1]
        if r < 4:
            return "err InvalidLength"
        n = struct.unpack(">I", buf[:4])[0]
        if m != "-" and n > int(m):
            return "err InvalidLength"
        rest = buf[4:]
        if op in ("varbytes", "string"):
            if len(rest) < n + pad(n):
                return "err InvalidLength"
            if op == "varbytes":
                return "ok %s %s" % (showbytes(lead + 4, rest[:n]), at(lead, 4 + n + pad(n), r))
            if not utf8_ok(rest[:n]):
                return "err NonUtf8String"
            return "ok s:%s %s" % (rest[:n].hex(), at(lead, 4 + n + pad(n), r))
        e = args[0]
        vals, pos = [], 0
        for _ in range(n):
            if e == "b1":
                if len(rest) - pos < 1:
                    return "err InvalidLength"
                vals.append(str(rest[pos]))
                pos += 1
            elif e == "w4":
                if len(rest) - pos < 4:
                    return "err InvalidLength"
                vals.append(str(struct.unpack(">I", rest[pos:pos + 4])[0]))
                pos += 4
            else:
                if len(rest) - pos < 4:
                    return "err InvalidLength"
                c = struct.unpack(">I", rest[pos:pos + 4])[0]
                if len(rest) - pos - 4 < 4 * c:
                    return "err InvalidLength"
                s = sum(struct.unpack(">I", rest[pos + 4 + 4 * i:pos + 8 + 4 * i])[0] for i in range(c))
                vals.append("(vec %d %d)" % (c, s))
                pos += 4 + 4 * c
        if len(rest) - pos < pad(pos):
            return "err InvalidLength"
        return "ok (vec%s) %s" % ("".join(" " + v for v in vals), at(lead, 4 + pos + pad(pos), r))
    return None


def split_reply(line):
    if "\t" in line:
        v, a = line.split("\t", 1)
    else:
        v, a = line, "allocs"
    return v.strip(), a.split()[1:]


def allocs_match(model_events, impl_raw):
    """model: ['vec:2','str:5','box']; impl: ['8/4', '9'] raw sizes (optionally /elem size)."""
    i = 0
    for ev in model_events:
        kind, _, n = ev.partition(":")
        n = int(n) if n else 0
        if kind == "vec":
            if n == 0:
                # zero-capacity vectors do not allocate
                continue
            if i >= len(impl_raw):
                return False
            raw, _, es = impl_raw[i].partition("/")
            es = int(es) if es else None
            if es is not None and int(raw) != n * es:
                return False
            i += 1
        elif kind == "str":
            if n == 0:
                continue           # collecting an empty payload does not allocate
            if i < len(impl_raw):
                raw = int(impl_raw[i].split("/")[0])
                if n <= raw <= max(8, n + 1):
                    i += 1
                    continue
            return False
        elif kind == "box":
            if i >= len(impl_raw):
                return False
            i += 1
    return i == len(impl_raw)


def reserve_bounded(req, impl_reply):
    """C09 reference at the reader level: no single request exceeds the bytes present (+ the String minimum)."""
    op, args, lead, buf = parse(req)
    v, raw = split_reply(impl_reply)
    if v.startswith("panic") or v.startswith("abort"):
        return True
    for a in raw:
        sz, _, es = a.partition("/")
        elems = int(sz) // int(es) if es else int(sz)
        if es:
            if elems > len(buf):
                return False
        elif int(sz) > max(8, len(buf) + 1):
            return False
    return True


def run(tier, rng, rep=None):
    """Runs the grid on both sides. Returns list of (req, impl_reply, model_reply, oracle_value)."""
    reqs = gen_requests(tier, rng)
    ok, log = cargo_build("rt")
    if not ok:
        raise RuntimeError("harness/rt does not build:\n" + log[-3000:])
    impl = run_lines([os.path.join(VERIF, "harness", "rt", "target", "debug", "fxrt")], reqs)
    model = run_driver(["rt " + r for r in reqs])
    return [(q, i, m, oracle(q)) for q, i, m in zip(reqs, impl, model)]
