"""Per-property reading of a T2 campaign (tools/t2.py): the tie (compiled decoders = Fx.Eval on every case)
and the model-independent reference oracles that look for a concrete failing input."""
import re
from lib import *
import t2, t4

LEAF = re.compile(r"b@[^ )]*")


def strip_meta(v):
    """value part without the cursor / size annotations"""
    return re.sub(r" (rem=\S+|at=\S+|ws=\d+)", "", v)


def field(v, name):
    m = re.search(r" %s=(\S+)" % name, v)
    return m.group(1) if m else None


def replay_of(res, c, expected, observed, why):
    return {"kind": why, "spec": res["specs"][c["k"]]["text"], "type": c["ty"], "family": c["fam"], "lead": c["lead"], "input_hex": c["hex"],
            "expected": expected, "observed": observed, "model": t4.split_reply(c["model"])[0][:2000],
            "how": "./check <prop> --replay <this file> compiles the specification and runs the input"}


def run_property(rep, prop, tier, rng, judge, rule, nspecs=None, opts=None, tag="t2"):
    """judge(case, impl_value, impl_allocs, spec) -> None | (expected, why) | ('KNOWN', id, what)"""
    nviol, distinct = 0, set()
    kinds, outcomes, st = {}, {}, {}
    nrel = nprog = ntie = 0
    first_tie = None
    hyp = {h: 0 for h in ("supported", "plansok", "sizeexact", "finite", "outputok", "elemssure", "acyclic", "paramsok", "labelstyped", "variantsdistinct", "implfits", "typesok")}
    uncovered, not_compiled, samples, heavy_skipped = [], [], [], []
    for ci, res in enumerate(t2.campaign_chunks(tier, rep.seed, nspecs=nspecs, opts=opts, tag=tag)):
        for c in res["cases"]:
            iv, ia = t4.split_reply(c["impl"])
            mv, ma = t4.split_reply(c["model"])
            spec = res["specs"][c["k"]]
            if iv.startswith("abort (not run)"):
                continue
            verdict = judge(c, iv, ia, spec, mv, ma)
            if verdict == "skip":
                continue
            nrel += 1
            kinds[c["kind"]] = kinds.get(c["kind"], 0) + 1
            oc = iv.split()[0] + (" " + iv.split()[1] if iv.startswith("err") else "")
            outcomes[oc] = outcomes.get(oc, 0) + 1
            distinct.add((ci, c["k"], c["ty"], c["kind"], oc, c.get("what")))
            if verdict is not None:
                if verdict[0] == "KNOWN":
                    rep.known_finding(verdict[1], verdict[2])
                else:
                    nviol += 1
                    if nviol <= 5:
                        rep.violation(replay_of(res, c, verdict[0], iv[:2000], verdict[1]))
            tie = None
            if iv != mv:
                tie = (iv, mv, "value")
            elif prop == "C09" and spec.get("flags", {}).get("elemssure") == "true" and not iv.startswith("panic") and not t2.allocs_ok(ma, ia, t2.spec_sizes(spec)):
                tie = (" ".join(ia), " ".join(ma), "allocation log")
            if tie:
                ntie += 1
                if first_tie is None:
                    first_tie = replay_of(res, c, None, tie[0][:2000], "tie-T2-broken")
                    first_tie.update({"tie": "T2 compiled generated decoders vs Fx.Eval (%s)" % tie[2], "model": tie[1][:2000]})
        for k, s in enumerate(res["specs"]):
            st[s["status"]] = st.get(s["status"], 0) + 1
            # hypotheses of the specification-level theorems (Supported, Plans.Ok, SizeExact', finite types, outputOk) on the specifications
            # whose decoders were exercised: the plan-level ones must hold for everything rustc compiled
            for h in hyp:
                hyp[h] += s.get("flags", {}).get(h) == "true"
            if s["status"] == "ok" and not s.get("oos") and not all(s.get("flags", {}).get(h) == "true" for h in ("supported", "plansok", "sizeexact", "finite", "outputok", "elemssure", "paramsok", "labelstyped", "variantsdistinct", "implfits", "typesok")):
                uncovered.append(s)
            if s["status"] != "ok":
                not_compiled.append({"chunk": ci, "k": k, "status": s["status"]})
        nprog += len(res["specs"])
        heavy_skipped += [{"chunk": ci, "spec": k, "type": t, "typical_words": w} for k, t, w in res.get("skipped_heavy", [])]
        if len(samples) < 6:
            samples += [{"spec": res["specs"][c["k"]]["text"][:200], "type": c["ty"], "family": c["fam"], "input_hex": c["hex"][:120],
                         "kind": c["kind"], "impl": c["impl"][:200]} for c in res["cases"][:: max(1, len(res["cases"]) // 6)]][:6 - len(samples)]
        del res
    rep.cov.update({"evaluations": nrel, "distinct_nontrivial": len(distinct), "programs": nprog, "spec_status": st,
                    "traces_validated_against_impl": nrel - ntie, "input_kinds": kinds, "outcomes": outcomes, "rule": rule, "samples": samples})
    rep.assumptions += ["Rust semantics of the emitted subset modelled in Fx/Eval.lean (tied by this run)", "bytes crate modelled", "A-usize"]
    # specifications whose generated module did not compile are C07's business; they are not silently dropped
    rep.cov["specs_not_compiled"] = not_compiled
    # types whose every value is enormous (nested fixed-length arrays): no value is generated for them, their components are exercised
    rep.cov["types_too_large_to_enumerate"] = heavy_skipped[:50]
    rep.cov["theorem_hypotheses_hold_on"] = dict(hyp, of=nprog)
    if uncovered and nviol == 0 and not ntie:
        rep.violation({"kind": "theorem-hypothesis-fails", "what": "a specification of the supported subset compiled, but a decidable hypothesis of the specification- and plan-level theorems "
                       "(Supported / Plans.Ok / Plans.SizeExact' / Plans.finite / outputOk / paramsOk / labelsTyped / variantsDistinct / implFits) is false for it", "spec": uncovered[0]["text"],
                       "flags": uncovered[0].get("flags"), "count": len(uncovered)}, found_input=False)
    if ntie and nviol == 0:
        first_tie["differences"] = ntie
        rep.violation(first_tie, found_input=False)


def replay_case(r):
    """compile the one specification of a replay file and run its input; returns the impl value part"""
    b = t2.Batch([r["spec"]], with_clone=False, tag="replay")
    if b.status.get("0") != "ok":
        return "spec-status " + b.status.get("0", "?") + " " + str(b.compile_errors.get("0"))
    out = b.run(["dec 0 %s %s %d %s" % (r["family"], r["type"], r["lead"], r["input_hex"] or "-")])[0]
    return t4.split_reply(out)[0]


def generic_replay(rep, r):
    got = replay_case(r)
    print("input   :", r.get("input_hex"))
    print("observed:", got[:600])
    print("expected:", (r.get("expected") or "(see model)")[:600])
    if r.get("expected"):
        return 0 if got == r["expected"] else 1
    return 0 if got == r.get("model") else 1
