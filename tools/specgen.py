"""Declaration-model generator and printer for XDR specifications.

A declaration model D is a list of items (dicts).  `gen_supported` draws
well-formed specifications from the supported subset of DESIGN §3.3;
`mutate_out_of_subset` adds grammar-valid constructs outside it; `render`
prints a model to text under a layout drawn from the same PRNG stream.
Everything random comes from the lib.Rng passed in (VERIF_SEED)."""
import json

PRIM_SPELLINGS = {
    "u32": ["unsigned int", "uint32_t", "u32", "unsigned"],
    "i32": ["int", "int32_t", "i32"],
    "u64": ["unsigned hyper", "uint64_t", "u64"],
    "i64": ["hyper", "int64_t", "i64"],
    "f32": ["float"],
    "f64": ["double"],
    "bool": ["bool"],
}
ALL_PRIM_WORDS = {w for ws in PRIM_SPELLINGS.values() for w in ws} | {"string", "opaque"}
RUST_KW = ["as", "async", "await", "break", "const", "continue", "crate", "dyn", "else", "enum", "extern", "false", "fn",
           "for", "if", "impl", "in", "let", "loop", "match", "mod", "move", "mut", "pub", "ref", "return", "Self", "self",
           "static", "struct", "super", "trait", "true", "type", "union", "unsafe", "use", "where", "while"]
# field names that are also XDR keywords of the grammar's literals still lex as idents
FIELD_WORDS = ["a", "b", "cookie", "name", "len", "data_v", "x1", "next", "value", "id", "flags", "body", "attr", "count",
               "type", "match", "loop", "ref", "self", "mod", "use", "fn", "in", "move", "where", "yield_", "_u", "k9"]


def is_basic(spelling):
    """true when the grammar lexes the spelling as `basic_type` (needs whitespace after it)"""
    return spelling in ("unsigned int", "unsigned hyper", "int", "hyper", "float", "double", "string", "opaque")


class Gen:
    def __init__(self, rng):
        self.r = rng
        self.n = 0

    def fresh(self, prefix):
        self.n += 1
        return "%s%d" % (prefix, self.n)

    def prim(self, kinds=None):
        k = self.r.choice(kinds or list(PRIM_SPELLINGS))
        return self.r.choice(PRIM_SPELLINGS[k])

    # ------------------------------------------------------------------ supported subset
    def supported(self, ndecl=None, opts=None):
        """Returns (items, meta).  Types are created in rank order: plain / fixed / typedef / arm
        references go to lower ranks only; optional and counted-array references may go anywhere."""
        r = self.r
        o = dict(opaque_bare=False, typedef_opaque_fixed=True, typedef_opaque_bounded=True, data_default=True,
                 bool_void=True, const_enum=False)
        o.update(opts or {})
        ndecl = ndecl or (3 + r.below(10))
        consts, enums, types = [], [], []   # types: dict(kind,name,...) in rank order
        flags = set()
        nconst = r.below(4)
        for _ in range(nconst):
            consts.append({"k": "const", "name": self.fresh("C"), "val": str(1 + r.below(6))})
        if r.chance(1, 4):
            consts.append({"k": "const", "name": self.fresh("H"), "val": "0x%x" % r.below(1 << 20)})   # hex: never used as a bound
        nenum = r.below(3)
        for _ in range(nenum):
            vals = r.shuffle(list(range(0, 12)) + [255, 65536, 0x7fffffff])[: 1 + r.below(4)]
            mem = []
            for v in vals:
                mem.append([self.fresh("E"), ("0x%x" % v) if r.chance(1, 4) else str(v)])
            enums.append({"k": "enum", "name": self.fresh("en"), "members": mem, "sep": "," })
        dec_consts = [c for c in consts if not c["val"].startswith("0x")]
        plan = [r.choice(["struct", "struct", "struct", "union", "union", "typedef", "typedef"]) for _ in range(ndecl)]
        names = [self.fresh({"struct": "st", "union": "un", "typedef": "td"}[k]) for k in plan]

        def bound(allow_empty=True):
            c = r.below(4)
            if c == 0 and allow_empty:
                return ""
            if c == 1 and dec_consts:
                return r.choice(dec_consts)["name"]
            return str(1 + r.below(5))

        def lower(i):
            """a named type of lower rank (or an enum); None if there is none"""
            cands = names[:i] + [e["name"] for e in enums]
            return r.choice(cands) if cands else None

        def anyname(i):
            return r.choice(names)

        def field_type(i):
            """(ty, arr, opt) for a struct field of declaration i"""
            c = r.below(16)
            if c < 4:
                return self.prim(), None, False
            if c == 4:
                return "string", r.choice([None, ["var", bound()]]), False
            if c == 5:
                if o["opaque_bare"] and r.chance(1, 2):
                    flags.add("K1")
                    return "opaque", None, False          # bracket-less `opaque x;` (not RFC syntax; pinned by the golden tests)
                return "opaque", ["var", bound()], False
            if c == 6:
                return "opaque", ["fixed", bound(False)], False
            if c == 7:
                return self.prim(), ["fixed", bound(False)], False
            if c in (8, 9):
                t = lower(i)
                if t:
                    return t, r.choice([None, None, ["fixed", bound(False)]]), False
                return self.prim(), None, False
            if c in (10, 11):
                return anyname(i), ["var", bound()], False
            if c in (12, 13):
                return anyname(i), None, True
            t = lower(i)
            return (t, None, False) if t else (self.prim(), None, False)

        for i, (k, name) in enumerate(zip(plan, names)):
            if k == "struct":
                nf = 1 + r.below(5)
                used, fields = set(), []
                for _ in range(nf):
                    fn = r.choice(FIELD_WORDS)
                    if fn in used or fn + "_v" in used or (fn.endswith("_v") and fn[:-2] in used):
                        fn = self.fresh("f")
                    used.add(fn)
                    ty, arr, opt = field_type(i)
                    fields.append({"ty": ty, "name": fn, "arr": arr, "opt": opt})
                types.append({"k": "struct", "name": name, "fields": fields})
            elif k == "typedef":
                c = r.below(9)
                if c == 0:
                    types.append({"k": "typedef", "ty": self.prim(), "name": name, "arr": None})
                elif c == 1:
                    arr = r.choice([None, ["var", ""]])
                    if o["typedef_opaque_bounded"] and r.chance(1, 2):
                        arr = ["var", bound(False)]
                    types.append({"k": "typedef", "ty": "opaque", "name": name, "arr": arr})
                elif c == 2 and o["typedef_opaque_fixed"]:
                    types.append({"k": "typedef", "ty": "opaque", "name": name, "arr": ["fixed", bound(False)]})
                else:
                    t = lower(i)
                    if t is None:
                        types.append({"k": "typedef", "ty": self.prim(), "name": name, "arr": None})
                    else:
                        arr = r.choice([None, None, ["fixed", bound(False)], ["var", bound()]])
                        # an alias[..] of an enum or lower type is fine; var arrays may also point anywhere
                        if arr and arr[0] == "var" and r.chance(1, 2):
                            t2 = anyname(i)
                            if t2 != name:
                                t = t2
                        types.append({"k": "typedef", "ty": t, "name": name, "arr": arr})
            else:
                types.append(self.union(i, name, names, enums, consts, types, o, flags, lower))
        # constants defined as another constant (`const A = B;` prints `pub const A: u32 = B;`): declared before or after their
        # target, never used as a bound or a label (as a bound they are an emitter error in every order)
        alias = []
        if dec_consts and r.chance(1, 2):
            for _ in range(1 + r.below(2)):
                alias.append({"k": "const", "name": self.fresh("A"), "val": r.choice(dec_consts)["name"]})
        items = (alias + consts if r.chance(1, 2) else consts + alias) + enums + types
        return items, {"flags": sorted(flags)}

    def union(self, i, name, names, enums, consts, types, o, flags, lower):
        r = self.r
        # switch type
        prim_typedefs = [t["name"] for t in types if t["k"] == "typedef" and t["arr"] is None and t["ty"] in
                         [w for k in ("u32", "i32") for w in PRIM_SPELLINGS[k]]]     # RFC 4506 4.15: int, unsigned int or an enum
        c = r.below(8)
        swkind = "int"
        if c <= 2:
            swty, swkind = self.prim(["i32", "u32"]), "int"
        elif c == 3:
            swty, swkind = self.prim(["i32", "u32"]), "int"
        elif c == 4:
            swty, swkind = "bool", "bool"
        elif c in (5, 6) and enums:
            e = r.choice(enums)
            swty, swkind = e["name"], "enum"
        elif c == 7 and prim_typedefs:
            swty, swkind = r.choice(prim_typedefs), "int"
        else:
            swty, swkind = "int", "int"
        # label pool
        if swkind == "bool":
            pool = r.shuffle(["TRUE", "FALSE"])[: 1 + r.below(2)]
        elif swkind == "enum":
            pool = r.shuffle([m[0] for m in e["members"]])[: 1 + r.below(len(e["members"]))]
        else:
            pool = [str(x) for x in r.shuffle(list(range(0, 9)))[: 1 + r.below(5)]]
            # constants as labels (value must not collide with a numeric label); enum members on an int switch
            cvals = {}
            for cst in consts:
                v = int(cst["val"], 0)
                if str(v) not in pool and v not in cvals.values() and r.chance(1, 2) and v < 2**31:
                    cvals[cst["name"]] = v
            pool += list(cvals)
            if enums and swty in PRIM_SPELLINGS["i32"] + PRIM_SPELLINGS["u32"] and r.chance(1, 3) and not c == 7:
                taken = {int(p) for p in pool if p.isdigit()} | set(cvals.values())
                for m in r.choice(enums)["members"]:
                    if int(m[1], 0) not in taken and r.chance(1, 2):
                        pool.append(m[0])
                        taken.add(int(m[1], 0))
            pool = r.shuffle(pool)
        arms, k = [], 0
        while k < len(pool):
            g = 1 + (r.below(3) if r.chance(1, 3) else 0)
            labels = pool[k:k + g]
            k += g
            arms.append({"labels": labels, "body": self.arm_body(i, lower, o, flags, swkind)})
        # default
        d = r.below(4)
        if swkind == "bool" and len(pool) == 2:
            d = 0
        # labels that fall through into the default arm (`case 5: case 6: default: …`)
        dl = []
        if d in (1, 2) and len(arms) >= 2 and r.chance(1, 3):
            last = arms.pop()
            dl = last["labels"]
        if d == 1:
            arms.append({"default": True, "labels": dl, "body": "void"})
        elif d == 2 and o["data_default"]:
            b = self.arm_body(i, lower, o, flags, swkind, nonvoid=True)
            arms.append({"default": True, "labels": dl, "body": b})
        elif dl:
            arms.append(last)
        swvar = r.choice(["d", "disc", "kind", "sw", "type", "status"])
        return {"k": "union", "name": name, "swty": swty, "swvar": swvar, "arms": arms}

    def arm_body(self, i, lower, o, flags, swkind, nonvoid=False):
        r = self.r
        c = r.below(10)
        if c <= 1 and not nonvoid:
            if swkind == "bool":
                if not o["bool_void"]:
                    c = 5
                else:
                    return "void"
            else:
                return "void"
        fn = r.choice(["x", "ok", "res", "val", "mod", "info"]) + str(r.below(100))
        if c <= 4:
            return {"ty": self.prim(), "name": fn, "arr": None}
        if c == 5:
            return {"ty": "string", "name": fn, "arr": None}
        if c == 6 and o["opaque_bare"]:
            flags.add("K1")
            return {"ty": "opaque", "name": fn, "arr": None}
        t = lower(i)
        if t:
            return {"ty": t, "name": fn, "arr": None}
        return {"ty": self.prim(), "name": fn, "arr": None}


# ---------------------------------------------------------------------- printing

class Layout:
    """separator strings between tokens; `plain` = single spaces/newlines."""

    def __init__(self, rng=None, mode="plain"):
        self.r, self.mode = rng, mode
        # one line-ending convention per text: LF, CRLF or a lone CR (pest's NEWLINE accepts all three, also as the end of a `//` comment)
        self.nl = rng.choice(["\n", "\n", "\r\n", "\r"]) if (rng and mode != "plain") else "\n"

    def ws(self):
        if self.mode == "plain":
            return " "
        r = self.r
        return "".join(r.choice([" ", " ", "\t", self.nl, "  ", self.nl]) for _ in range(1 + r.below(2)))

    def comment(self):
        r = self.r
        if r.chance(1, 2):
            body = r.choice(["", " c ", " struct x { int a; }; ", "*", " // ", "é ☃ ", " int x; ", "\n%", "\n% #include <x.h> ", " #define X 1\n# ",
                             " old layout: /* kind, name ", "/*", " /* /* "])
            return "/*" + body + "*/"
        return "//" + r.choice(["", " c", " case 1: void;", "/* open", " é", "% x", "*/"]) + self.nl

    def sep(self, need_ws=False, lead_ws=False):
        """between two tokens. need_ws: something must separate them. lead_ws: must start with whitespace."""
        if self.mode == "plain":
            return " " if (need_ws or lead_ws) else ""
        r = self.r
        out = ""
        if lead_ws:
            out += self.ws()
        n = r.below(3) if self.mode == "wild" else (1 if r.chance(1, 6) else 0)
        for _ in range(n):
            out += r.choice([self.ws(), self.comment(), self.comment() + self.ws()])
        if need_ws and not out:
            out = self.ws()
        return out


def render(items, lay=None):
    lay = lay or Layout()
    out = []

    def tok_type(ty):
        # a basic_type token swallows the whitespace after it: the separator must start with whitespace
        out.append(ty)
        out.append(lay.sep(need_ws=True, lead_ws=is_basic(ty)))

    def kw(word, need_ws=True):
        out.append(word)
        out.append(lay.sep(need_ws=need_ws))

    def punct(p):
        out.append(lay.sep())
        out.append(p)
        out.append(lay.sep())

    def decl(d):
        tok_type(d["ty"])
        if d.get("opt"):
            out.append("*")
            out.append(lay.sep())
        out.append(d["name"])
        a = d.get("arr")
        if a:
            op, cl = ("[", "]") if a[0] == "fixed" else ("<", ">")
            punct(op)
            if a[1] != "":
                out.append(a[1])
            punct(cl)
        punct(";")

    out.append(lay.sep())
    for it in items:
        k = it["k"]
        if k == "const":
            kw("const")
            out.append(it["name"])
            punct("=")
            out.append(it["val"])
            punct(";")
        elif k == "enum":
            kw("enum")
            out.append(it["name"])
            punct("{")
            for j, (n, v) in enumerate(it["members"]):
                if j:
                    if it.get("sep", ",") == ",":
                        punct(",")
                    else:
                        out.append(lay.sep(need_ws=True))
                out.append(n)
                punct("=")
                out.append(v)
            punct("}")
            punct(";")
        elif k == "struct":
            kw("struct")
            out.append(it["name"])
            punct("{")
            for f in it["fields"]:
                decl(f)
            punct("}")
            punct(";")
        elif k == "typedef":
            kw("typedef")
            decl(it)
        elif k == "union":
            kw("union")
            out.append(it["name"])
            out.append(lay.sep(need_ws=True))
            kw("switch", need_ws=False)
            punct("(")
            tok_type(it["swty"])
            out.append(it["swvar"])
            punct(")")
            punct("{")
            for arm in it["arms"]:
                labels = arm["labels"]
                if arm.get("default"):
                    for l in labels:           # labels falling through into the default
                        kw("case")
                        out.append(l)
                        punct(":")
                    kw("default", need_ws=False)
                    punct(":")
                else:
                    for l in labels:
                        kw("case")
                        out.append(l)
                        punct(":")
                b = arm["body"]
                if b is None:
                    pass
                elif b == "void":
                    kw("void", need_ws=False)
                    punct(";")
                else:
                    decl(b)
            punct("}")
            punct(";")
        else:
            raise ValueError(k)
    return "".join(out)


def shuffled(items, rng):
    return rng.shuffle(items)


# ---------------------------------------------------------------------- out-of-subset constructs (grammar-valid)

def out_of_subset(gen, rng):
    """One grammar-valid specification using a construct outside the supported subset.  Returns (items, tag)."""
    items, meta = gen.supported(ndecl=2 + rng.below(3))
    c = rng.below(18)
    tag = ""
    s = {"k": "struct", "name": gen.fresh("s"), "fields": [{"ty": "int", "name": "a", "arr": None, "opt": False}]}
    if c == 0:
        tag = "array-in-union-arm"
        items.append({"k": "union", "name": gen.fresh("u"), "swty": "int", "swvar": "d", "arms": [
            {"labels": ["1"], "body": {"ty": rng.choice(["int", "string", "opaque", s["name"]]), "name": "x",
                                       "arr": rng.choice([["var", "4"], ["var", ""], ["fixed", "2"]])}}]})
        items.append(s)
    elif c == 1:
        tag = "optional-in-union-arm"
        items.append(s)
        items.append({"k": "union", "name": gen.fresh("u"), "swty": "int", "swvar": "d", "arms": [
            {"labels": ["1"], "body": {"ty": s["name"], "name": "x", "arr": None, "opt": True}}]})
    elif c == 2:
        tag = "fixed-string"
        s["fields"].append({"ty": "string", "name": "nm", "arr": ["fixed", "4"], "opt": False})
        items.append(s)
    elif c == 3:
        tag = "duplicate-constant"
        n = gen.fresh("D")
        items.append({"k": "const", "name": n, "val": "1"})
        items.insert(0, {"k": rng.choice(["const"]), "name": n, "val": "2"})
    elif c == 4:
        tag = "duplicate-enum-member"
        n = gen.fresh("M")
        items.append({"k": "enum", "name": gen.fresh("en"), "members": [[n, "1"]]})
        items.append({"k": "enum", "name": gen.fresh("en"), "members": [[gen.fresh("M"), "0"], [n, "2"]]})
    elif c == 5:
        tag = "hex-enum-out-of-range"
        items.append({"k": "enum", "name": gen.fresh("en"), "members": [[gen.fresh("M"), rng.choice(["0x80000000", "0xffffffff", "0x100000000", "0x1G", "0x"])]]})
    elif c == 6:
        tag = "primitive-name-as-field"
        s["fields"].append({"ty": "int", "name": rng.choice(["u32", "i64", "bool", "uint32_t", "unsigned"]), "arr": None, "opt": False})
        items.append(s)
    elif c == 7:
        tag = "duplicate-type-name"
        items.append(s)
        items.append({"k": "struct", "name": s["name"], "fields": [{"ty": "hyper", "name": "b", "arr": None, "opt": False}]})
    elif c == 8:
        tag = "optional-with-array"
        s["fields"].append({"ty": s["name"], "name": "nx", "arr": ["var", "3"], "opt": True})
        items.append(s)
    elif c == 9:
        tag = "unknown-constant-bound"
        s["fields"].append({"ty": "opaque", "name": "o", "arr": [rng.choice(["fixed", "var"]), rng.choice(["NOPE", "99999999999", "0x10"])], "opt": False})
        items.append(s)
    elif c == 10:
        tag = "unresolvable-type"
        items.append({"k": "typedef", "ty": "nosuch", "name": gen.fresh("t"), "arr": rng.choice([None, ["fixed", "2"]])})
    elif c == 11:
        tag = "primitive-name-as-union-arm"
        items.append({"k": "union", "name": gen.fresh("u"), "swty": "int", "swvar": "d", "arms": [
            {"labels": ["1"], "body": {"ty": "int", "name": rng.choice(["u32", "bool"]), "arr": None}}]})
    elif c == 12:
        tag = "enum-member-as-bound"
        m = gen.fresh("M")
        items.append({"k": "enum", "name": gen.fresh("en"), "members": [[m, "2"]]})
        form = rng.below(4)
        if form == 0:
            s["fields"].append({"ty": rng.choice(["int", "opaque", s["name"]]), "name": "xs", "arr": ["fixed", m], "opt": False})
        elif form == 1:
            s["fields"].append({"ty": rng.choice(["string", "opaque", s["name"]]), "name": "xs", "arr": ["var", m], "opt": False})
        elif form == 2:
            items.append({"k": "typedef", "ty": rng.choice(["opaque", s["name"]]), "name": gen.fresh("t"), "arr": ["var", m]})
        else:
            items.append({"k": "typedef", "ty": rng.choice(["opaque", "int", s["name"]]), "name": gen.fresh("t"), "arr": ["fixed", m]})
        items.append(s)
    elif c == 13:
        tag = "names-used-across-kinds"
        # a type name where a constant is expected, a constant where a type is expected, an enum name as a label
        e = gen.fresh("en")
        items.append({"k": "enum", "name": e, "members": [[gen.fresh("M"), "1"]]})
        k = gen.fresh("K")
        items.append({"k": "const", "name": k, "val": "2"})
        s["fields"].append({"ty": k, "name": "c", "arr": None, "opt": False})
        s["fields"].append({"ty": "int", "name": "d", "arr": ["fixed", s["name"]], "opt": False})
        items.append(s)
        items.append({"k": "union", "name": gen.fresh("u"), "swty": k, "swvar": "sw", "arms": [{"labels": [e, s["name"]], "body": {"ty": "int", "name": "x", "arr": None}}]})
    elif c == 14:
        tag = "degenerate-declarations"
        items.append({"k": "struct", "name": gen.fresh("s"), "fields": []})
        items.append({"k": "union", "name": gen.fresh("u"), "swty": "int", "swvar": "d", "arms": []})
        items.append({"k": "union", "name": gen.fresh("u"), "swty": "int", "swvar": "d", "arms": [{"default": True, "labels": [], "body": "void"}]})
        items.append({"k": "union", "name": gen.fresh("u"), "swty": "int", "swvar": "d", "arms": [{"labels": ["1", "2"], "body": None}]})
        items.append({"k": "enum", "name": gen.fresh("en"), "members": [[gen.fresh("M"), rng.choice(["2147483648", "4294967296", "99999999999999999999", "007"])]]})
        items.append({"k": "typedef", "ty": "int", "name": gen.fresh("t"), "arr": ["var", rng.choice(["4294967296", "0", "00"])]})
    elif c == 15:
        tag = "hex-constant-as-bound"
        # a constant written in hex (in range, at and above 2^31, wider than 32 bits, malformed) used as a length or a bound, in every
        # bounded position: the emitter parses the constant's text itself
        k = gen.fresh("K")
        items.append({"k": "const", "name": k, "val": rng.choice(["0x10", "0x7fffffff", "0x80000000", "0xffffffff", "0x100000000",
                                                                  "0xfffffffffffffffff", "0x1G", "0x", "0xG"])})
        form = rng.below(4)
        if form == 0:
            s["fields"].append({"ty": rng.choice(["int", "opaque", s["name"]]), "name": "xs", "arr": ["fixed", k], "opt": False})
        elif form == 1:
            s["fields"].append({"ty": rng.choice(["string", "opaque", s["name"]]), "name": "xs", "arr": ["var", k], "opt": False})
        elif form == 2:
            items.append({"k": "typedef", "ty": rng.choice(["opaque", s["name"]]), "name": gen.fresh("t"), "arr": ["var", k]})
        else:
            items.append({"k": "typedef", "ty": rng.choice(["opaque", "int", s["name"]]), "name": gen.fresh("t"), "arr": ["fixed", k]})
        items.append(s)
    elif c == 16:
        tag = "constant-cycle"
        # constants defined in terms of each other (grammar-valid) used as a case label, a bound, an enum value: whatever walks the chain has to stop
        k1, k2 = gen.fresh("K"), gen.fresh("K")
        ring = rng.choice([[(k1, k1)], [(k1, k2), (k2, k1)], [(k1, k2), (k2, gen.fresh("K") + "x")]])
        for nm, val in ring:
            items.append({"k": "const", "name": nm, "val": val})
        use = rng.below(4)
        if use == 0:
            items.append({"k": "union", "name": gen.fresh("u"), "swty": rng.choice(["int", "unsigned int"]), "swvar": "d", "arms": [
                {"labels": [k1], "body": {"ty": "int", "name": "x", "arr": None}}, {"labels": ["7"], "body": "void"}]})
        elif use == 1:
            items.append({"k": "union", "name": gen.fresh("u"), "swty": "int", "swvar": "d", "arms": [
                {"labels": ["1"], "body": {"ty": "int", "name": "x", "arr": None}}, {"labels": [k1], "body": "void"}]})
        elif use == 2:
            s["fields"].append({"ty": "opaque", "name": "o", "arr": [rng.choice(["fixed", "var"]), k1], "opt": False})
        else:
            items.append({"k": "enum", "name": gen.fresh("en"), "members": [[gen.fresh("M"), k1]]})
        items.append(s)
    else:
        tag = "var-array-of-primitive"
        s["fields"].append({"ty": rng.choice(["int", "uint32_t", "string"]), "name": "xs", "arr": ["var", ""], "opt": False})
        items.append(s)
    return items, tag


def catalog_oos():
    """compiled and exercised like the catalogue, but outside the supported subset: the model/code tie, the family, suffix, offset and
    reference oracles apply; the hypotheses of the specification-level theorems are not demanded of them.  Returns [(tag, items)]."""
    return [
        # element types whose encoding is empty (an empty struct, `opaque nil[0]`): a counted array of them is a count word and nothing
        # else, in the middle of a value and as the last thing in the buffer.  All bounded: an *unbounded* array of such elements lets a
        # 4-byte input drive 2^32 loop iterations (finding K15), which would only slow the campaign down
        ("oos:zero-wire-size", [
            {"k": "struct", "name": "unit", "fields": []},
            {"k": "typedef", "ty": "opaque", "name": "nil", "arr": ["fixed", "0"]},
            {"k": "struct", "name": "zmsg", "fields": [{"ty": "unit", "name": "us", "arr": ["var", "6"], "opt": False}, {"ty": "int", "name": "mid", "arr": None, "opt": False},
                                                       {"ty": "nil", "name": "ns", "arr": ["var", "5"], "opt": False}]},
            {"k": "struct", "name": "zlast", "fields": [{"ty": "int", "name": "head", "arr": None, "opt": False}, {"ty": "unit", "name": "us", "arr": ["var", "9"], "opt": False}]},
            {"k": "typedef", "ty": "unit", "name": "units", "arr": ["var", "7"]},
            {"k": "typedef", "ty": "nil", "name": "nils", "arr": ["var", "4"]}]),
    ]


def names_catalog():
    """front-end only (these need not compile): declarations named with Rust reserved words (ordinary XDR identifiers; the emitters
    escape them with `_v`, the indexes must not), next to a declaration that already carries the escaped spelling; members named like
    their own declaration or like the type they refer to.  Returns [(tag, items)]."""
    out = []
    kws = ["ref", "match", "type", "use", "mod", "fn", "impl", "self", "Self", "loop", "move", "in", "as", "where", "dyn", "async"]
    for i, kw in enumerate(kws):
        prim = ["unsigned int", "int", "hyper", "unsigned hyper"][i % 4]
        items = [{"k": "typedef", "ty": prim, "name": kw, "arr": None},
                 {"k": "struct", "name": "holder", "fields": [{"ty": kw, "name": "r", "arr": None, "opt": False}, {"ty": kw, "name": "rs", "arr": ["var", ""], "opt": False},
                                                              {"ty": "plain", "name": "p", "arr": None, "opt": False}]},
                 {"k": "typedef", "ty": "int", "name": "plain", "arr": None}]
        if i % 2 == 0:
            items.append({"k": "typedef", "ty": "hyper", "name": kw + "_v", "arr": None})
        out.append(("names:keyword-typedef", items))
    for i in range(0, len(kws) - 3, 4):
        a, b, c, d = kws[i:i + 4]
        out.append(("names:keyword-declarations", [
            {"k": "const", "name": a, "val": "3"},
            {"k": "struct", "name": b, "fields": [{"ty": "int", "name": "x", "arr": None, "opt": False}, {"ty": "opaque", "name": "o", "arr": ["var", a], "opt": False}]},
            {"k": "enum", "name": c, "members": [["M_" + c, "1"], ["N_" + c, "2"]]},
            {"k": "union", "name": d, "swty": c, "swvar": "sw", "arms": [{"labels": ["M_" + c], "body": {"ty": b, "name": "x", "arr": None}}, {"labels": ["N_" + c], "body": "void"}]},
            {"k": "struct", "name": b + "_v", "fields": [{"ty": d, "name": "u", "arr": None, "opt": False}, {"ty": b, "name": "s", "arr": None, "opt": True}]}]))
    # numeric spellings: upper-case hex prefix and digits, leading zeros (decimal everywhere: Rust and `parse::<u32>` read `010` as ten)
    out.append(("spellings:enum-and-const-values", [
        {"k": "enum", "name": "hexes", "members": [["H1", "0X4"], ["H2", "0X7F"], ["H3", "0x0A"], ["H4", "0xaB"], ["H5", "0Xyz"], ["H6", "010"], ["H7", "00"], ["H8", "0x00000010"]]},
        {"k": "const", "name": "K1", "val": "0X10"}, {"k": "const", "name": "K2", "val": "010"}, {"k": "const", "name": "K3", "val": "0x0A"},
        {"k": "const", "name": "K4", "val": "0xFFFFFFFF"}, {"k": "const", "name": "K5", "val": "00"},
        {"k": "struct", "name": "uses", "fields": [{"ty": "opaque", "name": "a", "arr": ["var", "010"], "opt": False}, {"ty": "opaque", "name": "b", "arr": ["fixed", "08"], "opt": False},
                                                   {"ty": "string", "name": "c", "arr": ["var", "K2"], "opt": False}, {"ty": "int", "name": "d", "arr": ["fixed", "0010"], "opt": False}]},
        {"k": "typedef", "ty": "opaque", "name": "t10", "arr": ["var", "010"]},
        {"k": "union", "name": "lab", "swty": "int", "swvar": "d", "arms": [{"labels": ["010"], "body": {"ty": "int", "name": "x", "arr": None}}, {"labels": ["00", "K2"], "body": "void"}]}]))
    # declarations whose names differ only by an affix the generator itself uses somewhere (`_t`, `_v`, `v_`, `<T>`)
    for sfx_i, (plain, affixed) in enumerate([("cookie", "cookie_t"), ("type", "type_t"), ("ref", "ref_v"), ("n1", "v_n1"), ("item", "itemT"), ("blob", "blob_")]):
        out.append(("names:affix-pairs", [
            {"k": "typedef", "ty": "opaque", "name": affixed, "arr": ["var", "8"]},
            {"k": "struct", "name": plain, "fields": [{"ty": "int", "name": "a", "arr": None, "opt": False}]},
            {"k": "struct", "name": "uses%d" % sfx_i, "fields": [{"ty": plain, "name": "p", "arr": None, "opt": False}, {"ty": affixed, "name": "q", "arr": None, "opt": False}]},
            {"k": "struct", "name": "only_plain%d" % sfx_i, "fields": [{"ty": plain, "name": "p", "arr": ["var", ""], "opt": False}]}]))
        out.append(("names:affix-pairs", [
            {"k": "struct", "name": affixed, "fields": [{"ty": "int", "name": "a", "arr": None, "opt": False}]},
            {"k": "struct", "name": plain, "fields": [{"ty": "opaque", "name": "o", "arr": ["var", ""], "opt": False}]},
            {"k": "union", "name": "sel%d" % sfx_i, "swty": "int", "swvar": "d", "arms": [{"labels": ["1"], "body": {"ty": affixed, "name": "x", "arr": None}},
                                                                                    {"labels": ["2"], "body": {"ty": plain, "name": "y", "arr": None}}]}]))
    out.append(("names:member-like-declaration", [
        {"k": "struct", "name": "data", "fields": [{"ty": "unsigned int", "name": "hint", "arr": None, "opt": False}, {"ty": "opaque", "name": "data", "arr": ["var", ""], "opt": False}]},
        {"k": "struct", "name": "datas", "fields": [{"ty": "data", "name": "datas", "arr": ["var", ""], "opt": False}]},
        {"k": "struct", "name": "entry", "fields": [{"ty": "int", "name": "v", "arr": None, "opt": False}, {"ty": "entry", "name": "entry", "arr": None, "opt": True}]},
        {"k": "union", "name": "reply", "swty": "int", "swvar": "reply_kind", "arms": [{"labels": ["1"], "body": {"ty": "data", "name": "reply", "arr": None}},
                                                                                     {"default": True, "labels": [], "body": {"ty": "entry", "name": "entry", "arr": None}}]},
        {"k": "typedef", "ty": "reply", "name": "holder", "arr": None},
        {"k": "struct", "name": "plainly", "fields": [{"ty": "int", "name": "plainly", "arr": None, "opt": False}, {"ty": "entry", "name": "data", "arr": None, "opt": False}]}]))
    return out


def mutate_text(text, rng):
    """token-level mutation of a specification text (delete / duplicate / swap / truncate / replace)."""
    import re
    toks = re.findall(r"\s+|/\*.*?\*/|//[^\n]*\n?|[A-Za-z0-9_]+|.", text, re.S)
    if not toks:
        return text
    c = rng.below(7)
    i = rng.below(len(toks))
    if c == 6:
        # replace one identifier by another identifier of the same text (names used across kinds)
        ids = [j for j, t in enumerate(toks) if re.fullmatch(r"[A-Za-z_][A-Za-z0-9_]*", t)]
        if len(ids) >= 2:
            a, b = rng.choice(ids), rng.choice(ids)
            toks[a] = toks[b]
        return "".join(toks)
    if c == 0:
        del toks[i]
    elif c == 1:
        toks.insert(i, toks[i])
    elif c == 2:
        j = rng.below(len(toks))
        toks[i], toks[j] = toks[j], toks[i]
    elif c == 3:
        toks = toks[:i]
    elif c == 4:
        toks[i] = rng.choice([";", "{", "}", "<", ">", "[", "]", "*", "case", "default", "void", "int", "unsigned", "0x", "=", ",", ":", "/*", "//",
                              "struct", "union", "enum", "typedef", "const", "switch", "(", ")", "0", "4294967296", "type", "opaque", "string"])
    else:
        toks.insert(i, rng.choice([" ", "\n", "/* c */", "// c\n", "x", "1"]))
    return "".join(toks)


# ---------------------------------------------------------------------- construct catalogue

def catalog():
    """Every supported declarator form x bound kind x position, each in a small specification of its own
    (so that no run depends on the random mixes for covering a construct).  Returns list of (tag, items)."""
    out = []
    forms = [("plain", None), ("fixN", ["fixed", "3"]), ("fixC", ["fixed", "K"]), ("var", ["var", ""]), ("varN", ["var", "2"]), ("varC", ["var", "K"])]
    base_items = [
        {"k": "const", "name": "K", "val": "3"},
        {"k": "enum", "name": "color", "members": [["RED", "0"], ["GREEN", "5"], ["BLUE", "0x7fffffff"]]},
        {"k": "struct", "name": "inner", "fields": [{"ty": "int", "name": "a", "arr": None, "opt": False}, {"ty": "opaque", "name": "blob", "arr": ["var", ""], "opt": False}]},
        {"k": "union", "name": "sel", "swty": "int", "swvar": "d", "arms": [{"labels": ["1"], "body": {"ty": "string", "name": "s", "arr": None}},
                                                                            {"labels": ["2", "3"], "body": "void"}, {"default": True, "labels": [], "body": {"ty": "hyper", "name": "h", "arr": None}}]},
    ]

    def spec(tag, extra):
        out.append((tag, [dict(x) for x in base_items] + extra))

    for base in ("opaque", "string", "inner", "color", "sel", "unsigned int", "double"):
        for fname, arr in forms:
            # struct field
            if base == "opaque" and fname == "plain":
                continue                                   # bracket-less opaque: finding K1, exercised separately
            if base == "string" and fname in ("fixN", "fixC"):
                continue                                   # fixed-length string: out of subset (panics)
            if base in ("unsigned int", "double") and fname in ("var", "varN", "varC"):
                continue                                   # counted arrays of primitives: out of subset (orphan rule)
            if base == "string" and fname in ("var", "varN", "varC", "plain"):
                pass
            spec("field:%s:%s" % (base, fname), [{"k": "struct", "name": "holder", "fields": [
                {"ty": "int", "name": "head", "arr": None, "opt": False}, {"ty": base, "name": "f", "arr": arr, "opt": False},
                {"ty": "unsigned int", "name": "tail", "arr": None, "opt": False}]}])
            # typedef, used plain / in a counted array / optional / union arm
            if base == "string":
                continue                                   # typedef of string: out of subset
            if base in ("unsigned int", "double") and fname != "plain":
                continue
            spec("typedef:%s:%s" % (base, fname), [
                {"k": "typedef", "ty": base, "name": "alias", "arr": arr},
                {"k": "typedef", "ty": "alias", "name": "alias2", "arr": None},
                {"k": "struct", "name": "holder", "fields": [
                    {"ty": "alias", "name": "x", "arr": None, "opt": False}, {"ty": "alias", "name": "ys", "arr": ["var", "2"], "opt": False},
                    {"ty": "alias", "name": "zs", "arr": ["fixed", "2"], "opt": False}, {"ty": "alias2", "name": "w", "arr": None, "opt": False},
                    {"ty": "alias", "name": "o", "arr": None, "opt": True}]},
                {"k": "union", "name": "arms", "swty": "color", "swvar": "c", "arms": [
                    {"labels": ["RED"], "body": {"ty": "alias", "name": "x", "arr": None}}, {"labels": ["GREEN"], "body": "void"},
                    {"default": True, "labels": [], "body": {"ty": "alias2", "name": "y", "arr": None}}]}])
    # unions: every switch kind, label kind, fall-through shape, default kind
    spec("union:bool", [{"k": "union", "name": "ub", "swty": "bool", "swvar": "b", "arms": [{"labels": ["TRUE"], "body": {"ty": "inner", "name": "x", "arr": None}}, {"labels": ["FALSE"], "body": "void"}]},
                        {"k": "union", "name": "ub2", "swty": "bool", "swvar": "b", "arms": [{"labels": ["TRUE"], "body": "void"}, {"labels": ["FALSE"], "body": "void"}]},
                        {"k": "union", "name": "ub3", "swty": "bool", "swvar": "b", "arms": [{"labels": ["FALSE"], "body": "void"}]},
                        {"k": "union", "name": "ub4", "swty": "bool", "swvar": "b", "arms": [{"labels": ["TRUE"], "body": "void"}, {"default": True, "labels": [], "body": {"ty": "unsigned int", "name": "v2", "arr": None}}]}])
    spec("union:labels", [{"k": "const", "name": "L9", "val": "9"}, {"k": "const", "name": "HX", "val": "0x10"},
                          {"k": "typedef", "ty": "unsigned int", "name": "uint", "arr": None},
                          {"k": "union", "name": "u1", "swty": "unsigned int", "swvar": "type", "arms": [
                              {"labels": ["0", "L9"], "body": None}, {"labels": ["GREEN"], "body": {"ty": "int", "name": "a", "arr": None}},
                              {"labels": ["HX"], "body": "void"}, {"labels": ["4"], "body": None}, {"labels": ["7"], "body": "void"},
                              {"labels": ["BLUE"], "body": {"ty": "inner", "name": "b", "arr": None}}]},
                          {"k": "union", "name": "u2", "swty": "uint", "swvar": "disc", "arms": [
                              {"labels": ["1"], "body": {"ty": "sel", "name": "a", "arr": None}}, {"labels": ["2"], "body": None},
                              {"default": True, "labels": [], "body": "void"}]},
                          {"k": "union", "name": "u3", "swty": "int", "swvar": "disc", "arms": [
                              {"labels": ["1"], "body": {"ty": "color", "name": "a", "arr": None}}, {"labels": ["2"], "body": None},
                              {"default": True, "labels": [], "body": {"ty": "uint", "name": "dflt", "arr": None}}]},
                          {"k": "union", "name": "u4", "swty": "color", "swvar": "disc", "arms": [
                              {"labels": ["RED"], "body": None}, {"labels": ["BLUE"], "body": {"ty": "double", "name": "a", "arr": None}}]}])
    # arm order: a default arm first and in the middle, a void arm first, the labels of a fall-through group in descending order
    # (one specification per union: a change that makes one of them uncompilable must not hide the others)
    spec("union:arm-order:default-first", [
        {"k": "union", "name": "dfirst", "swty": "int", "swvar": "d", "arms": [
            {"default": True, "labels": [], "body": {"ty": "hyper", "name": "h", "arr": None}}, {"labels": ["1"], "body": {"ty": "int", "name": "a", "arr": None}},
            {"labels": ["2"], "body": "void"}]},
        {"k": "struct", "name": "orders1", "fields": [{"ty": "dfirst", "name": "a", "arr": ["var", ""], "opt": False}, {"ty": "int", "name": "tail", "arr": None, "opt": False}]}])
    spec("union:arm-order:default-middle", [
        {"k": "union", "name": "dmid", "swty": "unsigned int", "swvar": "d", "arms": [
            {"labels": ["9", "5", "1"], "body": {"ty": "inner", "name": "a", "arr": None}}, {"default": True, "labels": [], "body": "void"},
            {"labels": ["8", "7"], "body": {"ty": "string", "name": "s", "arr": None}}]},
        {"k": "struct", "name": "orders2", "fields": [{"ty": "dmid", "name": "b", "arr": ["fixed", "2"], "opt": False}]}])
    spec("union:arm-order:data-default-middle", [
        {"k": "union", "name": "ddmid", "swty": "int", "swvar": "d", "arms": [
            {"labels": ["3"], "body": {"ty": "int", "name": "a", "arr": None}}, {"default": True, "labels": [], "body": {"ty": "unsigned int", "name": "dflt", "arr": None}},
            {"labels": ["2"], "body": {"ty": "hyper", "name": "b", "arr": None}}, {"labels": ["4"], "body": "void"}]},
        {"k": "typedef", "ty": "ddmid", "name": "ddmids", "arr": ["var", ""]}])
    spec("union:arm-order:void-first", [
        {"k": "union", "name": "vfirst", "swty": "color", "swvar": "c", "arms": [
            {"labels": ["BLUE"], "body": "void"}, {"labels": ["GREEN", "RED"], "body": {"ty": "sel", "name": "x", "arr": None}}]},
        {"k": "struct", "name": "orders3", "fields": [{"ty": "vfirst", "name": "c", "arr": None, "opt": True}]}])
    # optional links to every kind of named type (struct, union, enum, typedefs of each, typedef of opaque)
    spec("optional:targets", [
        {"k": "typedef", "ty": "color", "name": "tcolor", "arr": None}, {"k": "typedef", "ty": "sel", "name": "tsel", "arr": None},
        {"k": "typedef", "ty": "opaque", "name": "tblob", "arr": ["var", "6"]}, {"k": "typedef", "ty": "inner", "name": "tinners", "arr": ["var", "2"]},
        {"k": "typedef", "ty": "unsigned hyper", "name": "tbig", "arr": None},
        {"k": "struct", "name": "opts", "fields": [{"ty": "inner", "name": "s", "arr": None, "opt": True}, {"ty": "sel", "name": "u", "arr": None, "opt": True},
                                                   {"ty": "color", "name": "e", "arr": None, "opt": True}, {"ty": "tcolor", "name": "te", "arr": None, "opt": True},
                                                   {"ty": "tsel", "name": "tu", "arr": None, "opt": True}, {"ty": "tblob", "name": "tb", "arr": None, "opt": True},
                                                   {"ty": "tinners", "name": "ti", "arr": None, "opt": True}, {"ty": "tbig", "name": "tg", "arr": None, "opt": True},
                                                   {"ty": "opts", "name": "again", "arr": None, "opt": True}, {"ty": "int", "name": "tail", "arr": None, "opt": False}]},
        {"k": "typedef", "ty": "opts", "name": "optlist", "arr": ["var", "3"]}])
    # case labels in the upper half of the unsigned range (written as literals and through constants), next to the largest signed one
    spec("union:big-labels", [
        {"k": "const", "name": "TOP", "val": "4294967295"}, {"k": "const", "name": "MID", "val": "2147483648"},
        {"k": "union", "name": "ubig", "swty": "unsigned int", "swvar": "d", "arms": [
            {"labels": ["2147483648"], "body": {"ty": "int", "name": "a", "arr": None}}, {"labels": ["2147483647"], "body": {"ty": "inner", "name": "b", "arr": None}},
            {"labels": ["4294967295", "4294967294"], "body": None}, {"labels": ["3000000000"], "body": "void"}, {"labels": ["0"], "body": {"ty": "hyper", "name": "z", "arr": None}}]},
        {"k": "union", "name": "ubigc", "swty": "unsigned int", "swvar": "d", "arms": [
            {"labels": ["TOP"], "body": {"ty": "int", "name": "a", "arr": None}}, {"labels": ["MID"], "body": "void"},
            {"default": True, "labels": [], "body": {"ty": "unsigned int", "name": "other", "arr": None}}]},
        {"k": "union", "name": "imax", "swty": "int", "swvar": "d", "arms": [
            {"labels": ["2147483647"], "body": {"ty": "int", "name": "a", "arr": None}}, {"labels": ["0"], "body": "void"}]},
        {"k": "struct", "name": "bigs", "fields": [{"ty": "ubig", "name": "xs", "arr": ["var", ""], "opt": False}, {"ty": "ubigc", "name": "y", "arr": None, "opt": False}]}])
    # one name or one declaration in several roles at once
    spec("interactions:names-and-roles", [
        {"k": "const", "name": "N", "val": "2"},
        {"k": "typedef", "ty": "unsigned int", "name": "uint", "arr": None},
        {"k": "enum", "name": "kind", "members": [["inner", "1"], ["sel", "4"], ["N2", "3"]]},
        # the constant N is a bound, a fixed length and a case label; the typedef uint is a discriminant, a field, an array element and an optional target
        {"k": "struct", "name": "roles", "fields": [{"ty": "opaque", "name": "N2", "arr": ["var", "N"], "opt": False}, {"ty": "uint", "name": "uint", "arr": None, "opt": False},
                                                    {"ty": "uint", "name": "us", "arr": ["var", "N"], "opt": False}, {"ty": "uint", "name": "uf", "arr": ["fixed", "N"], "opt": False},
                                                    {"ty": "uint", "name": "uo", "arr": None, "opt": True}, {"ty": "kind", "name": "kind", "arr": None, "opt": False},
                                                    {"ty": "inner", "name": "inner", "arr": ["fixed", "N"], "opt": False}]},
        {"k": "union", "name": "byconst", "swty": "uint", "swvar": "kind", "arms": [
            {"labels": ["N"], "body": {"ty": "roles", "name": "roles", "arr": None}}, {"labels": ["inner"], "body": {"ty": "inner", "name": "inner", "arr": None}},
            {"labels": ["N2", "7"], "body": None}, {"labels": ["sel"], "body": {"ty": "sel", "name": "sel", "arr": None}}]},
        {"k": "union", "name": "bykind", "swty": "kind", "swvar": "kind", "arms": [
            {"labels": ["inner"], "body": {"ty": "byconst", "name": "inner", "arr": None}}, {"labels": ["sel"], "body": "void"},
            {"labels": ["N2"], "body": {"ty": "kind", "name": "again", "arr": None}}]},
        {"k": "typedef", "ty": "bykind", "name": "bykinds", "arr": ["var", "N"]},
        {"k": "struct", "name": "outer", "fields": [{"ty": "bykinds", "name": "a", "arr": None, "opt": False}, {"ty": "byconst", "name": "b", "arr": ["var", ""], "opt": False},
                                                    {"ty": "roles", "name": "c", "arr": None, "opt": True}]}])
    # labels that look like the keyword `default` (ordinary names: enum members, constants) on void and data arms, with and without a real default
    spec("union:default-lookalikes", [
        {"k": "enum", "name": "log_level", "members": [["QUIET", "0"], ["DEFAULT", "1"], ["TRACE", "2"], ["DEBUG", "3"]]},
        {"k": "const", "name": "Default", "val": "7"}, {"k": "const", "name": "dEFAULT", "val": "8"},
        {"k": "union", "name": "log_config", "swty": "unsigned int", "swvar": "level", "arms": [
            {"labels": ["DEBUG"], "body": {"ty": "unsigned int", "name": "mask", "arr": None}}, {"labels": ["QUIET"], "body": "void"},
            {"labels": ["DEFAULT"], "body": "void"}, {"labels": ["TRACE"], "body": "void"}]},
        {"k": "union", "name": "log_config2", "swty": "log_level", "swvar": "level", "arms": [
            {"labels": ["DEFAULT"], "body": {"ty": "inner", "name": "cfg", "arr": None}}, {"labels": ["QUIET", "TRACE"], "body": None},
            {"labels": ["DEBUG"], "body": "void"}]},
        {"k": "union", "name": "log_config3", "swty": "int", "swvar": "level", "arms": [
            {"labels": ["Default"], "body": "void"}, {"labels": ["dEFAULT", "3"], "body": None}, {"labels": ["4"], "body": {"ty": "int", "name": "x", "arr": None}},
            {"default": True, "labels": [], "body": {"ty": "hyper", "name": "other", "arr": None}}]}])
    # the two label/switch constructs of the golden tests combined: a typedef'd integer discriminant whose labels are enum members and
    # named constants (data arms, void arms, fall-through)
    spec("union:typedef-switch-enum-labels", [{"k": "const", "name": "L9", "val": "9"},
                          {"k": "typedef", "ty": "unsigned int", "name": "uint", "arr": None}, {"k": "typedef", "ty": "int", "name": "sint", "arr": None},
                          {"k": "union", "name": "u5", "swty": "uint", "swvar": "disc", "arms": [
                              {"labels": ["GREEN"], "body": {"ty": "int", "name": "a", "arr": None}}, {"labels": ["L9", "RED"], "body": None},
                              {"labels": ["3"], "body": {"ty": "inner", "name": "b", "arr": None}}, {"labels": ["BLUE"], "body": "void"}]},
                          {"k": "union", "name": "u6", "swty": "sint", "swvar": "disc", "arms": [
                              {"labels": ["RED"], "body": {"ty": "sel", "name": "a", "arr": None}}, {"labels": ["GREEN"], "body": "void"},
                              {"default": True, "labels": [], "body": {"ty": "uint", "name": "dflt", "arr": None}}]}])
    # bounds written with leading zeros are decimal (`parse::<u32>`; `pub const TEN: u32 = 010;` is ten in Rust too)
    spec("bounds:leading-zero", [{"k": "const", "name": "TEN", "val": "010"},
                                 {"k": "struct", "name": "lz", "fields": [{"ty": "opaque", "name": "a", "arr": ["var", "010"], "opt": False}, {"ty": "string", "name": "s", "arr": ["var", "011"], "opt": False},
                                                                          {"ty": "inner", "name": "xs", "arr": ["var", "0010"], "opt": False}, {"ty": "opaque", "name": "f", "arr": ["fixed", "010"], "opt": False},
                                                                          {"ty": "opaque", "name": "c", "arr": ["var", "TEN"], "opt": False}, {"ty": "int", "name": "tail", "arr": None, "opt": False}]},
                                 {"k": "typedef", "ty": "opaque", "name": "t10", "arr": ["var", "010"]}, {"k": "typedef", "ty": "inner", "name": "v10", "arr": ["var", "010"]}])
    spec("recursive", [{"k": "struct", "name": "node", "fields": [{"ty": "unsigned int", "name": "v", "arr": None, "opt": False}, {"ty": "node", "name": "next", "arr": None, "opt": True}]},
                       {"k": "struct", "name": "tree", "fields": [{"ty": "inner", "name": "label", "arr": None, "opt": False}, {"ty": "tree", "name": "kids", "arr": ["var", "K"], "opt": False}]},
                       {"k": "union", "name": "expr", "swty": "int", "swvar": "kind", "arms": [{"labels": ["0"], "body": {"ty": "int", "name": "lit", "arr": None}},
                                                                                            {"labels": ["1"], "body": {"ty": "pair", "name": "add", "arr": None}}]},
                       {"k": "struct", "name": "pair", "fields": [{"ty": "expr", "name": "l", "arr": None, "opt": True}, {"ty": "expr", "name": "r", "arr": ["var", "1"], "opt": False}]}])
    # every ordered pair of field forms in one struct (a decision taken once per struct instead of once per field shows here),
    # each struct also used as the element of a counted array (where wire_size() steers the decoding)
    pforms = [("ofix", "opaque", ["fixed", "3"]), ("ofix5", "opaque", ["fixed", "5"]), ("ofixc", "opaque", ["fixed", "K"]), ("ovar", "opaque", ["var", ""]), ("ovarn", "opaque", ["var", "5"]),
              ("ovarc", "opaque", ["var", "K"]), ("svar", "string", ["var", ""]), ("svarn", "string", ["var", "4"]), ("svarc", "string", ["var", "K"]),
              ("int", "int", None), ("inner", "inner", None), ("ifix", "inner", ["fixed", "2"]), ("ivar", "inner", ["var", ""]), ("hyp", "hyper", None)]
    for half in range(2):
        pairs = []
        for i, (n1, t1, a1) in enumerate(pforms):
            for j, (n2, t2, a2) in enumerate(pforms):
                if (i + j) % 2 != half:
                    continue
                pairs.append({"k": "struct", "name": "p_%s_%s" % (n1, n2), "fields": [
                    {"ty": t1, "name": "a", "arr": a1, "opt": False}, {"ty": t2, "name": "b", "arr": a2, "opt": False}]})
        pairs.append({"k": "struct", "name": "all_pairs", "fields": [
            {"ty": q["name"], "name": "f%d" % k, "arr": ["var", "2"], "opt": False} for k, q in enumerate(pairs)]})
        spec("struct:pairs%d" % half, pairs)
    # extreme declared maxima (as literals and through constants): the bound is parsed, printed and compared as it stands
    ext = [{"k": "const", "name": "BIG", "val": "4294967295"}, {"k": "const", "name": "HALF", "val": "2147483648"}, {"k": "const", "name": "ONE", "val": "1"},
           {"k": "const", "name": "ZERO", "val": "0"}]
    for bi, bnd in enumerate(["4294967295", "2147483648", "2147483647", "1", "0", "BIG", "HALF", "ONE", "ZERO"]):
        ext.append({"k": "struct", "name": "ext%d" % bi, "fields": [
            {"ty": "opaque", "name": "o", "arr": ["var", bnd], "opt": False}, {"ty": "string", "name": "s", "arr": ["var", bnd], "opt": False},
            {"ty": "inner", "name": "v", "arr": ["var", bnd], "opt": False}, {"ty": "int", "name": "tail", "arr": None, "opt": False}]})
        ext.append({"k": "typedef", "ty": "opaque", "name": "exto%d" % bi, "arr": ["var", bnd]})
        ext.append({"k": "typedef", "ty": "inner", "name": "extv%d" % bi, "arr": ["var", bnd]})
    ext.append({"k": "struct", "name": "one_each", "fields": [{"ty": "opaque", "name": "o", "arr": ["fixed", "1"], "opt": False},
                                                              {"ty": "inner", "name": "v", "arr": ["fixed", "ONE"], "opt": False}]})
    # many instances of a huge declared maximum in one message: an array of structs each holding arrays bounded by 2^32-1
    ext.append({"k": "typedef", "ty": "ext0", "name": "extrows", "arr": ["var", ""]})
    ext.append({"k": "struct", "name": "exttable", "fields": [{"ty": "extv0", "name": "cols", "arr": ["var", ""], "opt": False}, {"ty": "int", "name": "tail", "arr": None, "opt": False}]})
    spec("bounds:extreme", ext)
    # long fixed arrays (an emitter may treat "many elements" differently) and the payload lengths real protocols use for ids
    longs = []
    for n in (31, 32, 33, 40, 64):
        longs.append({"k": "struct", "name": "long%d" % n, "fields": [
            {"ty": "unsigned int", "name": "a", "arr": ["fixed", str(n)], "opt": False}, {"ty": "hyper", "name": "b", "arr": ["fixed", str(n)], "opt": False},
            {"ty": "bool", "name": "c", "arr": ["fixed", str(n)], "opt": False}, {"ty": "double", "name": "d", "arr": ["fixed", str(n)], "opt": False},
            {"ty": "color", "name": "e", "arr": ["fixed", str(n)], "opt": False}, {"ty": "opaque", "name": "f", "arr": ["fixed", str(n)], "opt": False},
            {"ty": "int", "name": "tail", "arr": None, "opt": False}]})
    longs.append({"k": "const", "name": "NSLOTS", "val": "40"})
    longs.append({"k": "struct", "name": "table", "fields": [{"ty": "unsigned int", "name": "slots", "arr": ["fixed", "NSLOTS"], "opt": False},
                                                              {"ty": "unsigned int", "name": "tail", "arr": None, "opt": False}]})
    for n in (8, 12, 16, 20, 28, 32):
        longs.append({"k": "struct", "name": "ids_%d" % n, "fields": [
            {"ty": "opaque", "name": "fixed_id", "arr": ["fixed", str(n)], "opt": False}, {"ty": "opaque", "name": "var_id", "arr": ["var", str(n)], "opt": False}]})
    spec("fixed:long", longs)
    # names that look like primitive spellings but are not (RFC 1813 declares `uint64`, `uint32`, …): they are ordinary identifiers
    near = ["uint32", "int32", "uint64", "int64", "uint", "uint8", "float32", "float64", "boolean", "integer", "str", "bytes_t", "opaque_t",
            "string_t", "void_t", "unsigned_int", "Bool", "Int", "hyper_t", "u_int", "u_long", "longlong_t", "size_t", "char_t"]
    nitems = [{"k": "typedef", "ty": ["unsigned int", "int", "unsigned hyper", "hyper"][i % 4], "name": nm, "arr": None} for i, nm in enumerate(near)]
    nitems.append({"k": "struct", "name": "uses_near", "fields": [{"ty": nm, "name": "f_%d" % i, "arr": None, "opt": False} for i, nm in enumerate(near)]})
    nitems.append({"k": "struct", "name": "named_near", "fields": [{"ty": "int", "name": nm, "arr": None, "opt": False} for nm in near]})
    spec("names:near-primitives", nitems)
    # zero-sized Rust types (a union with only void arms is a one-variant enum): as elements, boxed, in fixed arrays
    spec("zero-sized", [
        {"k": "enum", "name": "only", "members": [["ONE", "1"]]},
        {"k": "union", "name": "uz", "swty": "only", "swvar": "d", "arms": [{"labels": ["ONE"], "body": "void"}]},
        {"k": "union", "name": "uz2", "swty": "int", "swvar": "d", "arms": [{"default": True, "labels": [], "body": "void"}]},
        {"k": "struct", "name": "hz", "fields": [{"ty": "uz", "name": "xs", "arr": ["var", ""], "opt": False}, {"ty": "uz", "name": "ys", "arr": ["var", "3"], "opt": False},
                                                {"ty": "uz", "name": "zs", "arr": ["fixed", "2"], "opt": False}, {"ty": "uz", "name": "o", "arr": None, "opt": True},
                                                {"ty": "uz2", "name": "ws", "arr": ["var", ""], "opt": False}, {"ty": "int", "name": "tail", "arr": None, "opt": False}]},
        {"k": "typedef", "ty": "uz", "name": "uzs", "arr": ["var", ""]}])
    spec("array-recursive", [{"k": "struct", "name": "forest", "fields": [{"ty": "forest", "name": "kids", "arr": ["var", ""], "opt": False}]},
                             {"k": "typedef", "ty": "grove", "name": "glist", "arr": ["var", ""]},
                             {"k": "struct", "name": "grove", "fields": [{"ty": "int", "name": "v", "arr": None, "opt": False}, {"ty": "glist", "name": "sub", "arr": None, "opt": False}]},
                             {"k": "struct", "name": "flat", "fields": [{"ty": "inner", "name": "xs", "arr": ["var", ""], "opt": False}, {"ty": "inner", "name": "ys", "arr": ["var", ""], "opt": False}]}])
    spec("prims", [{"k": "struct", "name": "allprims", "fields": [
        {"ty": t, "name": "f%d" % i, "arr": None, "opt": False} for i, t in enumerate(
            ["unsigned int", "uint32_t", "u32", "unsigned", "int", "int32_t", "i32", "unsigned hyper", "uint64_t", "u64", "hyper", "int64_t", "i64", "float", "double", "bool", "string"])]}])
    return out
