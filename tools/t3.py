"""T3: the front end (`Ast::new`) three ways: real (harness/front), model (fxdrv `ast`),
and `ast_of(D)` — the record-for-record image of the declaration model, written here
independently of both (reference for C12; also yields the reachability reference for C13)."""
import re
from lib import *
import specgen

FRONT = os.path.join(VERIF, "harness", "front", "target", "debug", "fxfront")


def hx(text):
    b = text.encode("utf-8")
    return b.hex() if b else "-"


def q(s):
    out = []
    for c in s:
        if (c.isascii() and c.isalnum()) or c == "_":
            out.append(c)
        else:
            out.append("".join("\\x%02x" % b for b in c.encode("utf-8")))
    return "".join(out)


# ------------------------------------------------------------------ reference: D -> canonical Ast dump

PRIM_OF = {w: k for k, ws in specgen.PRIM_SPELLINGS.items() for w in ws}
PRIM_OF.update({"string": "string", "opaque": "opaque"})
AS_STR = {"u32": "u32", "i32": "i32", "u64": "u64", "i64": "i64", "f32": "f32", "f64": "f64", "bool": "bool",
          "string": "String", "opaque": "T"}


def bt(ty):
    return PRIM_OF[ty] if ty in PRIM_OF else 'I"%s"' % q(ty)


def bt_as_str(ty):
    return AS_STR[PRIM_OF[ty]] if ty in PRIM_OF else ty


def size(s):
    if re.fullmatch(r"[0-9]+", s) and int(s) < 2**32:
        return "K%d" % int(s)
    return 'C"%s"' % q(s)


def arr(ty, a):
    if a is None:
        return "N(%s)" % bt(ty)
    if a[0] == "fixed":
        return "F(%s,%s)" % (bt(ty), size(a[1]))
    return "V(%s,%s)" % (bt(ty), "-" if a[1] == "" else size(a[1]))


def ast_of(items, typedef_opaque_bound_kept=True):
    """Expected dump of Ast::new for a declaration model with unique names.  Returns None when D uses a
    construct whose AST image the specification of C12 does not define (those are C14's business)."""
    consts, types, generic_info = {}, {}, []
    for it in items:
        k = it["k"]
        if k == "const":
            if it["name"] in consts:
                return None
            consts[it["name"]] = "V:" + q(it["val"])
        elif k == "enum":
            mem = []
            for n, v in it["members"]:
                if n in consts:
                    return None
                consts[n] = "E:%s::%s" % (q(it["name"]), q(n))
                if v.startswith("0x"):
                    try:
                        x = int(v[2:], 16)
                    except ValueError:
                        return None
                    if x >= 2**31:
                        return None
                    mem.append("%s=N%d" % (q(n), x))
                elif re.fullmatch(r"[0-9]+", v) and int(v) < 2**31:
                    mem.append("%s=N%d" % (q(n), int(v)))
                else:
                    mem.append('%s=S"%s"' % (q(n), q(bt_as_str(v))))
            types[it["name"]] = "E(%s;[%s])" % (q(it["name"]), ",".join(mem))
        elif k == "struct":
            fs = []
            for f in it["fields"]:
                if f["name"] in PRIM_OF or (f.get("opt") and f.get("arr")):
                    return None
                fs.append("%s:%s:%s" % (q(f["name"]), arr(f["ty"], f.get("arr")), "opt" if f.get("opt") else "req"))
            types[it["name"]] = "S(%s;[%s])" % (q(it["name"]), ",".join(fs))
            generic_info.append((it["name"], any(f["ty"] == "opaque" for f in it["fields"]),
                                 [f["ty"] for f in it["fields"] if f["ty"] not in PRIM_OF]))
        elif k == "typedef":
            a = it.get("arr")
            if it["name"] in PRIM_OF:
                return None
            # RFC 4506: `typedef opaque t<N>` declares a bounded opaque; the AST keeps the bound
            if it["ty"] == "opaque" and a == ["var", ""]:
                a = None    # documented representation: `opaque t<>` is a plain alias, the reader handles the prefix
            types[it["name"]] = "D(target=%s;alias=%s)" % (bt(it["ty"]), arr(it["name"], a))
            generic_info.append((it["name"], it["ty"] == "opaque", [] if it["ty"] in PRIM_OF else [it["ty"]]))
        elif k == "union":
            cases, void, default, pending = [], [], "-", []
            for arm in it["arms"]:
                labels = pending + [bt_as_str(l) for l in arm["labels"]] + (["default"] if arm.get("default") else [])
                b = arm["body"]
                if b is None:
                    pending = labels
                    continue
                pending = []
                if b == "void":
                    void += labels
                else:
                    if b.get("arr") or b.get("opt") or b["name"] in PRIM_OF:
                        return None
                    c = "([%s];%s;%s)" % (",".join(q(l) for l in labels), q(b["name"]), arr(b["ty"], None))
                    if arm.get("default"):
                        default = c
                    else:
                        cases.append(c)
            sw = it["swty"]
            if sw in PRIM_OF:
                swt = PRIM_OF[sw] if PRIM_OF[sw] not in ("string", "opaque") else 'I"%s"' % AS_STR[PRIM_OF[sw]]
            else:
                swt = 'I"%s"' % q(sw)
            types[it["name"]] = "U(%s;sw=%s:%s;cases=[%s];default=%s;void=[%s])" % (
                q(it["name"]), q(it["swvar"]), swt, ",".join(cases), default, ",".join(q(v) for v in void))
            bodies = [a["body"] for a in it["arms"] if isinstance(a["body"], dict)]
            generic_info.append((it["name"], any(b["ty"] == "opaque" for b in bodies),
                                 [b["ty"] for b in bodies if b["ty"] not in PRIM_OF]))
    # reachability reference for generics (graph search, independent of the loop in the code)
    gen = set(n for n, own, _ in generic_info if own)
    changed = True
    while changed:
        changed = False
        for n, own, refs in generic_info:
            if n not in gen and any(x in gen for x in refs):
                gen.add(n)
                changed = True
    return "ok C{%s};G{%s};T{%s}" % (
        "|".join("%s=%s" % (q(k), v) for k, v in sorted(consts.items())),
        ",".join(q(g) for g in sorted(gen)),
        "|".join("%s=%s" % (q(k), v) for k, v in sorted(types.items())))


# ------------------------------------------------------------------ harvest of golden inputs

def golden_inputs():
    """every r#"…"# literal under /repo/src that the real parser accepts or rejects (used as extra texts)"""
    out = []
    for root, _, files in os.walk(os.path.join(REPO, "src")):
        for f in sorted(files):
            if f.endswith(".rs"):
                src = open(os.path.join(root, f), encoding="utf-8").read()
                for m in re.finditer(r'r#"(.*?)"#', src, re.S):
                    t = m.group(1)
                    if re.search(r"\b(struct|union|enum|typedef|const)\b", t) and "impl " not in t and "pub " not in t:
                        out.append(t)
    x = os.path.join(REPO, "src", "xdr_spec.x")
    if os.path.exists(x):
        out.append(open(x, encoding="utf-8").read())
    return out


def panic_canon(line):
    """`panic /repo/src/ast/union.rs message…` -> (basename, message)"""
    f = line.split(" ", 2)
    if len(f) < 2 or f[0] != "panic":
        return None
    return os.path.basename(f[1]), (f[2] if len(f) > 2 else "")


def same_outcome(impl, model):
    if impl == model:
        return True
    pi, pm = panic_canon(impl), panic_canon(model)
    if pi and pm:
        return pi[0] == pm[0] and pm[1] in pi[1]
    return False


def build():
    ok, log = cargo_build("front")
    if not ok:
        raise RuntimeError("harness/front does not build:\n" + log[-3000:])


def run_texts(texts):
    """[(impl_reply, model_reply)] for `ast` on each text"""
    reqs = ["ast " + hx(t) for t in texts]
    impl = run_lines([FRONT], reqs)
    model = run_driver(reqs)
    return list(zip(impl, model))


# ------------------------------------------------------------------ corpora

def corpus_supported(n, rng, modes=("plain", "light", "wild"), variants=1, opts=None):
    """n declaration models; each printed `variants` times under random layouts and declaration orders.
    Returns list of dicts {text, items, group, mode, meta}."""
    out = []
    for gi in range(n):
        g = specgen.Gen(rng)
        items, meta = g.supported(opts=opts)
        for v in range(variants):
            mode = modes[(gi + v) % len(modes)] if v else "plain"
            order = items if v == 0 else rng.shuffle(items)
            out.append({"text": specgen.render(order, specgen.Layout(rng, mode)), "items": items, "group": gi,
                        "mode": mode, "meta": meta, "kind": "supported", "perm": v != 0})
    return out


def corpus_out_of_subset(n, rng):
    out = []
    for _ in range(n):
        g = specgen.Gen(rng)
        items, tag = specgen.out_of_subset(g, rng)
        out.append({"text": specgen.render(rng.shuffle(items), specgen.Layout(rng, rng.choice(["plain", "light"]))),
                    "items": items, "kind": "out-of-subset", "tag": tag})
    return out


def corpus_mutations(n, rng, bases):
    out = []
    for _ in range(n):
        t = rng.choice(bases)
        for _ in range(1 + rng.below(2)):
            t = specgen.mutate_text(t, rng)
        out.append({"text": t, "items": None, "kind": "mutation"})
    return out


PRIM_LEAVES = ["string", "float", "double", "unsigned int", "int", "hyper", "unsigned hyper", "bool"]


def graph_spec(nodes, rng=None):
    """nodes: list of (kind, own_opaque, refs) with kind in struct/union/typedef; names g0..; refs are indices
    (or -1 for an undeclared name).  Edge kinds are drawn from rng (or plain when rng is None)."""
    items = []
    # one time in four the declarations carry names that are the Rust spellings of primitives or names the generator / prelude use:
    # they are ordinary XDR identifiers and the generic index is about names
    odd = ["String", "f32", "f64", "Vec", "Option", "Box", "Bytes", "T", "Error", "usize", "str", "Self_", "Result", "Some", "None"]
    pool = rng.shuffle(odd) if (rng and rng.chance(1, 4)) else None
    # one graph in five: the names differ only by an affix (`n`, `n_t`, `n_v`, `v_n`, `nT`, …) — a lookup that normalises, strips or
    # appends something makes two declarations one
    if rng and pool is None and rng.chance(1, 5):
        pool = rng.shuffle(["n", "n_t", "n_v", "v_n", "nT", "n_", "_n", "n_t_t", "N", "n1", "n_1", "t_n", "n_T", "n_type", "n_ptr"])
    name = lambda i: ((pool[i] if pool and i < len(pool) else "g%d" % i) if i >= 0 else "undeclared")
    # one graph in three (plain names only): members are named like declarations — the opaque member like its own struct / union
    # (`struct data { opaque data<>; }`), a reference like the type it names (`entry *entry`) or like its owner.  A member's name
    # is not a reference; the index is about types
    collide = bool(rng) and pool is None and rng.chance(1, 3)
    mname = lambda default, owner, target=None: (rng.choice([name(owner), name(owner), name(target) if target is not None and target >= 0 else name(owner), default])
                                                 if collide else default)
    for i, (kind, own, refs) in enumerate(nodes):
        if kind == "typedef":
            # a typedef of a primitive: every spelling whose Rust name differs from the XDR one is in the draw
            ty = "opaque" if own else (name(refs[0]) if refs else (rng.choice(PRIM_LEAVES) if rng else "int"))
            arr = None
            if rng and not own and refs and ty != name(i):
                arr = rng.choice([None, ["fixed", "2"], ["var", ""], ["var", "3"]])
            items.append({"k": "typedef", "ty": ty, "name": name(i), "arr": arr})
        elif kind == "struct":
            fs = []
            if own:
                fs.append({"ty": "opaque", "name": mname("o", i), "arr": (rng.choice([None, ["var", ""], ["fixed", "4"]]) if rng else ["var", ""]), "opt": False})
            for j, r in enumerate(refs):
                c = rng.below(4) if rng else 0
                fn = mname("f%d" % j, i, r)
                if any(f["name"] == fn for f in fs):
                    fn = "f%d" % j
                fs.append({"ty": name(r), "name": fn, "arr": [None, ["fixed", "2"], ["var", ""], None][c], "opt": c == 3})
            if rng and rng.chance(1, 2):
                # primitive leaves: no edge, whatever the declarations are called
                for j in range(1 + rng.below(2)):
                    p = rng.choice(PRIM_LEAVES)
                    fs.append({"ty": p, "name": "p%d" % j, "arr": (["var", ""] if p == "string" else rng.choice([None, None, ["fixed", "2"], ["var", ""]])), "opt": False})
            if not fs:
                fs.append({"ty": "int", "name": "x", "arr": None, "opt": False})
            items.append({"k": "struct", "name": name(i), "fields": fs})
        else:
            arms = []
            lab = 0
            bodies = ([{"ty": "opaque", "name": mname("o", i), "arr": None}] if own else []) + [{"ty": name(r), "name": mname("a%d" % j, i, r), "arr": None} for j, r in enumerate(refs)]
            if rng and rng.chance(1, 2):
                bodies.insert(rng.below(len(bodies) + 1), {"ty": rng.choice([p for p in PRIM_LEAVES if p != "string"]), "name": "p", "arr": None})
            for j, b in enumerate(bodies):
                if rng and j == len(bodies) - 1 and rng.chance(1, 3):
                    arms.append({"default": True, "labels": [], "body": b})
                else:
                    arms.append({"labels": [str(lab)], "body": b})
                    lab += 1
            if not arms:
                arms.append({"labels": ["0"], "body": "void"})
            # the default arm need not be the last one: what is written after it counts as much as what is written before
            if rng and len(arms) >= 2 and arms[-1].get("default") and rng.chance(1, 2):
                d = arms.pop()
                arms.insert(rng.below(len(arms)), d)
            items.append({"k": "union", "name": name(i), "swty": "int", "swvar": "d", "arms": arms})
    return items


def all_graphs(k, with_undeclared=False):
    """every dependency graph over k declarations: kind x own-opaque x reference set (typedefs have one target)"""
    import itertools
    targets = list(range(k)) + ([-1] if with_undeclared else [])
    per = []
    for kind in ("struct", "union"):
        for own in (False, True):
            for m in range(1 << len(targets)):
                per.append((kind, own, [targets[b] for b in range(len(targets)) if m >> b & 1]))
    per.append(("typedef", True, []))
    per.append(("typedef", False, []))
    for t in targets:
        per.append(("typedef", False, [t]))
    return itertools.product(per, repeat=k)
