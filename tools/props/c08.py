"""C08 — opaque data is never copied out of the input buffer."""
from lib import *
import t2, t2props


def judge(c, iv, ia, spec, mv, ma):
    if not iv.startswith("ok"):
        return "skip"
    leaves = t2props.LEAF.findall(iv)
    if any("COPY" in l for l in leaves):
        return ("every opaque leaf inside the input allocation", "an opaque payload lies outside the input allocation (copied)")
    if c["kind"] in ("valid", "valid+suffix"):
        want = t2props.LEAF.findall(t2.expected_valid(c))
        if leaves != want:
            return (" ".join(want), "an opaque payload is not at its wire offset")
        return None
    # any other successfully decoded value: leaves must match the model's (offset + bytes), and be in the allocation
    if leaves != t2props.LEAF.findall(mv):
        return (" ".join(t2props.LEAF.findall(mv)), "opaque leaf offset differs")
    return None


RULE = ("every successfully decoded value of the campaign (valid and hostile inputs alike): for every opaque leaf, as_ptr() lies inside the input allocation "
        "(views placed at a leading offset inside a larger allocation with slack on both sides) and as_ptr()-base = the absolute wire offset the reference computes")


def check(rep, tier, rng):
    proof_stage(rep, "C08")
    t2props.run_property(rep, "C08", tier, rng, judge, RULE)


def replay(rep, r):
    return t2props.generic_replay(rep, r)
