"""C05 — declared maxima and available bytes are enforced."""
from lib import *
import t2, t2props


def judge(c, iv, ia, spec, mv, ma):
    if c["kind"] == "prefix":
        if iv.startswith("ok"):
            return ("err …", "a strict prefix of a valid encoding was accepted")
        return None
    if c["kind"] == "targeted" and c["what"] in ("len>max", "cnt>max", "len>available", "cnt>available", "over-max-present"):
        if iv.startswith("ok"):
            return (c["expect"], "a length/count above the declared maximum or the bytes present was accepted")
        if iv != c["expect"]:
            if c["what"] == "cnt>available":
                return ("KNOWN", "K10", "an array count that exceeds the bytes present (but not a declared maximum) is rejected with the error of "
                                        "whichever element fails first, not always InvalidLength")
            return (c["expect"], "rejected with the wrong error")
        return None
    if c["kind"] in ("valid", "valid+suffix"):
        # lengths exactly at the maximum are among the generated values: they must be accepted
        if not iv.startswith("ok"):
            return (t2.expected_valid(c), "a valid encoding (lengths up to and including the maximum) was rejected")
        return None
    return "skip"


RULE = ("every strict prefix (byte granularity) of every valid encoding must be rejected; at every bounded declarator position (literal or constant bound, "
        "inline or typedef) the reference marks, the length/count word is set to max+1, 2^16, 2^31-1, 2^31, 2^32-1: InvalidLength demanded; "
        "values one item over the maximum at one bounded position with all bytes present (reference-generated): InvalidLength demanded; "
        "values with lengths = max are generated with probability 1/8 per position and must be accepted")


def bounds_not_dropped(rep, tier, rng):
    """a declarator written with a bound never gets an unbounded decoder: specifications whose bound cannot be resolved to a number (an
    unknown name, a constant written in hex or defined through another constant, an enum member, a cycle) must make `generate` return
    Err — if it answers Ok, the emitted decoder of the crafted field is inspected, and a `None` maximum there is the violation"""
    import re, t3, specgen
    t3.build()
    cases = [c for c in t3.corpus_out_of_subset(600 if tier == "quick" else 6000, rng)
             if c["tag"] in ("unknown-constant-bound", "hex-constant-as-bound", "enum-member-as-bound", "constant-cycle")]
    outs = run_lines([t3.FRONT], ["gen d " + t3.hx(c["text"]) for c in cases])
    n_ok = 0
    for c, g in zip(cases, outs):
        if not g.startswith("ok "):
            continue
        n_ok += 1
        text = bytes.fromhex(g[3:]).decode("utf-8", "replace")
        # the crafted declarators: field `o` / `xs` of the struct, or the typedef named t<i> with a bound
        crafted = [(it["name"], f["name"]) for it in c["items"] if it["k"] == "struct" for f in it["fields"]
                   if f["name"] in ("o", "xs") and f.get("arr") and f["arr"][0] == "var" and f["arr"][1] not in ("",) and not f["arr"][1].isdigit()]
        dropped = [fn for _, fn in crafted if re.search(r"\b%s: v\.read_\w+(::<[^>]*>)?\(None\)" % re.escape(fn), text)]
        tds = [it["name"] for it in c["items"] if it["k"] == "typedef" and it.get("arr") and it["arr"][0] == "var" and it["arr"][1] and not it["arr"][1].isdigit()]
        for t in tds:
            m = re.search(r"for %s(?:<Bytes>)? \{.*?Ok\(Self\(v\.read_\w+(::<[^>]*>)?\((None|Some\(\d+\))\)" % re.escape(t), text, re.S)
            if m and m.group(2) == "None":
                dropped.append(t)
        if dropped:
            rep.violation({"kind": "declared-bound-dropped", "text": c["text"], "declarators": dropped,
                           "what": "the specification declares a maximum that does not resolve to a number; generate answered Ok and the emitted decoder passes None (no maximum is enforced)",
                           "how": "fxfront: `gen d <hex of text>`"})
    rep.cov["unresolvable_bounds"] = {"texts": len(cases), "generate_ok": n_ok}


def check(rep, tier, rng):
    proof_stage(rep, "C05")
    t2props.run_property(rep, "C05", tier, rng, judge, RULE)
    bounds_not_dropped(rep, tier, rng)


def replay(rep, r):
    if r.get("kind") == "declared-bound-dropped":
        import re, t3
        t3.build()
        g = run_lines([t3.FRONT], ["gen d " + t3.hx(r["text"])])[0]
        print("generate:", g[:80])
        if not g.startswith("ok "):
            return 0
        text = bytes.fromhex(g[3:]).decode("utf-8", "replace")
        still = [d for d in r.get("declarators", []) if re.search(r"\b%s: v\.read_\w+(::<[^>]*>)?\(None\)" % re.escape(d), text)
                 or re.search(r"for %s(?:<Bytes>)? \{.*?Ok\(Self\(v\.read_\w+(::<[^>]*>)?\(None\)" % re.escape(d), text, re.S)]
        print("declarators still decoded without their maximum:", still)
        return 1 if still else 0
    return t2props.generic_replay(rep, r)
