"""C05 — declared maxima and available bytes are enforced."""
from lib import *
import t2, t2props


def judge(c, iv, ia, spec, mv, ma):
    if c["kind"] == "prefix":
        if iv.startswith("ok"):
            return ("err …", "a strict prefix of a valid encoding was accepted")
        return None
    if c["kind"] == "targeted" and c["what"] in ("len>max", "cnt>max", "len>available", "cnt>available", "over-max-present"):
        if iv.startswith("ok"):
            return (c["expect"], "a length/count above the declared maximum or the bytes present was accepted")
        if iv != c["expect"]:
            if c["what"] == "cnt>available":
                return ("KNOWN", "K10", "an array count that exceeds the bytes present (but not a declared maximum) is rejected with the error of "
                                        "whichever element fails first, not always InvalidLength")
            return (c["expect"], "rejected with the wrong error")
        return None
    if c["kind"] in ("valid", "valid+suffix"):
        # lengths exactly at the maximum are among the generated values: they must be accepted
        if not iv.startswith("ok"):
            return (t2.expected_valid(c), "a valid encoding (lengths up to and including the maximum) was rejected")
        return None
    return "skip"


RULE = ("every strict prefix (byte granularity) of every valid encoding must be rejected; at every bounded declarator position (literal or constant bound, "
        "inline or typedef) the reference marks, the length/count word is set to max+1, 2^16, 2^31-1, 2^31, 2^32-1: InvalidLength demanded; "
        "values one item over the maximum at one bounded position with all bytes present (reference-generated): InvalidLength demanded; "
        "values with lengths = max are generated with probability 1/8 per position and must be accepted")


def check(rep, tier, rng):
    proof_stage(rep, "C05")
    t2props.run_property(rep, "C05", tier, rng, judge, RULE)


def replay(rep, r):
    return t2props.generic_replay(rep, r)
