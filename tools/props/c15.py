"""C15 — the CLI prints exactly what the library generates."""
import shutil, subprocess, threading


def feed_pipe(path, data):
    try:
        with open(path, "wb") as f:
            f.write(data)
    except OSError:
        pass

from lib import *
import t3, specgen


def build_cli():
    env = dict(ENV, CARGO_TARGET_DIR=os.path.join(WORK, "target_cli"))
    with Lock("cargo_cli"):
        rc, out, err = sh(["cargo", "build", "--offline", "--quiet", "--manifest-path", os.path.join(REPO, "Cargo.toml"), "--bin", "fastxdr"], env=env, timeout=3600)
    if rc != 0:
        raise RuntimeError("fastxdr binary does not build:\n" + err[-3000:])
    return os.path.join(WORK, "target_cli", "debug", "fastxdr")


def check(rep, tier, rng):
    proof_stage(rep, "C15")
    t3.build()
    exe = build_cli()
    d = os.path.join(WORK, "cli")
    shutil.rmtree(d, ignore_errors=True)
    os.makedirs(d)
    # a pool of files of every kind
    pool = []
    g = specgen.Gen(rng)
    nvalid = 6 if tier == "quick" else 40
    for i in range(nvalid):
        items, _ = specgen.Gen(rng).supported(ndecl=2 + rng.below(4))
        pool.append(("valid%d.x" % i, specgen.render(items, specgen.Layout(rng, "light")).encode()))
    pool.append(("empty.x", b""))
    pool.append(("repo_spec.x", open(os.path.join(REPO, "src", "xdr_spec.x"), "rb").read()))
    pool.append(("rejected.x", b"struct s { int a; "))
    pool.append(("rejected2.x", b"enum e { A = 1, };"))
    pool.append(("emiterr.x", b"struct s { opaque o[NOPE]; };"))
    pool.append(("emiterr2.x", b"typedef nosuch t[2];"))
    pool.append(("panics.x", b"const A = 1; const A = 2;"))
    pool.append(("nonutf8.x", b"struct s { int a; }; // \xff\xfe\n"))
    # the same valid text with bytes an editor or a transfer may add at either end or inside: whatever the library says about
    # exactly these contents (accept or reject) is what the CLI must do — no trimming, no normalisation on the way
    base = pool[0][1].decode()
    junk = [("bom", "\ufeff"), ("bom2", "\ufeff\ufeff"), ("nbsp", "\u00a0"), ("zwsp", "\u200b"), ("ff", "\x0c"), ("nul", "\x00"),
            ("ctrlz", "\x1a"), ("vt", "\x0b"), ("cr", "\r"), ("ls", "\u2028"), ("nel", "\u0085")]
    for tag, j in junk:
        pool.append(("lead_%s.x" % tag, (j + base).encode()))
        pool.append(("trail_%s.x" % tag, (base + j).encode()))
    pool.append(("crlf.x", base.replace("\n", "\r\n").encode()))
    pool.append(("lead_nl.x", ("\n\n \t" + base + " \n").encode()))
    for name, data in pool:
        open(os.path.join(d, name), "wb").write(data)
    os.makedirs(os.path.join(d, "adir.x"))
    names = [n for n, _ in pool] + ["missing.x", "adir.x"]
    # what the library does with each file's contents
    lib_out = {}
    texts = [(n, data) for n, data in pool]
    reqs, idx = [], []
    for n, data in texts:
        try:
            t = data.decode("utf-8")
        except UnicodeDecodeError:
            lib_out[n] = "U"
            continue
        reqs.append("genfull " + t3.hx(t))
        idx.append(n)
    for n, line in zip(idx, run_lines([t3.FRONT], reqs)):
        lib_out[n] = "G:" + line[3:] if line.startswith("ok ") else ("P" if line.startswith("panic") else "E")
        if line == "ok -":
            lib_out[n] = "G:-"
    lib_out["missing.x"] = "U"
    lib_out["adir.x"] = "U"
    # argument lists: 0..3 files
    arglists = [[]] + [[n] for n in names]
    nl = 100 if tier == "quick" else 2000
    while len(arglists) < nl:
        k = 2 + rng.below(2)
        arglists.append([rng.choice(names) for _ in range(k)])
    # the same file more than once: by the same name, through `./x/../`, through a symbolic link
    os.makedirs(os.path.join(d, "sub"), exist_ok=True)
    v0, v1 = pool[0][0], pool[1][0]
    os.symlink(os.path.join(d, v0), os.path.join(d, "link_to_v0.x"))
    for alias in ("sub/../" + v0, "link_to_v0.x", "./" + v0):
        lib_out[alias] = lib_out[v0]
    # arguments that look like options or are degenerate: the CLI has no options — each is a path (and none of these exists)
    for odd in ("--", "-", "-h", "--help", "--version", "", " ", v0 + " ", "valid0.X"):
        lib_out[odd] = "U"
        arglists += [[odd], [v0, odd], [odd, v0]]
    lib_out[os.path.join(d, v0)] = lib_out[v0]          # the absolute path
    arglists += [[os.path.join(d, v0)], [os.path.join(d, v0), v0]]
    # many arguments; shorter files after longer ones and the reverse (a buffer reused between files shows here)
    valids = [n for n, _ in pool if n.startswith("valid")] + ["repo_spec.x", "empty.x"]
    by_len = sorted(valids, key=lambda n: len(dict(pool)[n]))
    arglists += [valids * 3, by_len, by_len[::-1], ["repo_spec.x", v0, "empty.x", v1], ["empty.x", "empty.x", v0]]
    os.mkfifo(os.path.join(d, "pipe.x"))
    lib_out["pipe.x"] = lib_out[v0]
    arglists += [["pipe.x"], ["pipe.x", v1], [v1, "pipe.x"], ["rejected.x", "pipe.x"], [v0, "pipe.x", v1]]      # at most once per list: two writers on one pipe would interleave
    arglists += [[v0, v0], [v0, v1, v0], [v0, "sub/../" + v0], [v0, "link_to_v0.x"], ["./" + v0, v0, v0], [v1, v1, v1], ["rejected.x", "rejected.x"], [v0, "rejected.x", v0]]
    model = run_driver(["cli %s %s" % (t3.hx(exe), " ".join(lib_out[a] for a in args)) for args in arglists])
    nviol, tie, distinct, kinds = 0, 0, set(), {}
    for args, m in zip(arglists, model):
        # arguments are passed as they are (relative to the working directory), so `-`, `--`, `` reach the program literally; stdin holds a
        # valid specification, so a program that reads it shows a module nobody asked for
        # `pipe.x` is a named pipe: a writer feeds it the text of the first valid file for every time it is named (a path need not be a
        # regular file: `fastxdr <(cpp spec.x)`); a program that sizes its read by the file's length reads nothing from it
        feeders = []
        for _ in range(sum(1 for a_ in args if a_ == "pipe.x")):
            th = threading.Thread(target=feed_pipe, args=(os.path.join(d, "pipe.x"), pool[0][1]), daemon=True)
            th.start()
            feeders.append(th)
        p = subprocess.run([exe] + list(args), capture_output=True, timeout=120, cwd=d, input=pool[1][1])
        for th in feeders:
            if th.is_alive():
                # the program never opened the pipe (an earlier argument failed): release the writer
                try:
                    fd = os.open(os.path.join(d, "pipe.x"), os.O_RDONLY | os.O_NONBLOCK)
                    th.join(2)
                    os.close(fd)
                except OSError:
                    pass
        # oracle straight from the property: concatenation of the library's texts + newline each, exit 0 / non-zero
        outs = [lib_out[a] for a in args]
        want_out, want_ok = b"", bool(args)
        for o in outs:
            if o.startswith("G:"):
                want_out += (b"" if o == "G:-" else bytes.fromhex(o[2:])) + b"\n"
            else:
                want_ok = False
                break
        cls = "none" if not args else ",".join(o[0] for o in outs)
        kinds[cls] = kinds.get(cls, 0) + 1
        distinct.add((cls, p.returncode))
        bad = None
        if args and p.stdout != want_out:
            bad = "stdout differs from the library's output"
        elif want_ok and p.returncode != 0:
            bad = "exit status non-zero although every file generated"
        elif not want_ok and p.returncode == 0:
            bad = "exit status 0 although a file failed / no arguments"
        if bad:
            nviol += 1
            if nviol <= 5:
                rep.violation({"kind": bad, "args": args, "files": {a: (dict(pool).get(a) or b"").decode("latin1") for a in args},
                               "exit": p.returncode, "stdout_len": len(p.stdout), "expected_stdout_len": len(want_out)})
        got = "exit=%d stdout=%s" % (p.returncode, p.stdout.hex() if p.stdout else "-")
        if got != m:
            tie += 1
            if tie == 1:
                first = {"args": args, "impl": got[:300], "model": m[:300]}
    rep.cov.update({"evaluations": len(arglists), "distinct_nontrivial": len(distinct), "traces_validated_against_impl": len(arglists) - tie,
                    "input_kinds": kinds,
                    "rule": "the fastxdr binary built from the working tree on argument lists of 0-3 paths drawn from {valid specs, empty file, grammar-rejected, "
                            "emitter-Err, generator panic, non-UTF-8, missing, directory, a valid text with BOM / NBSP / ZWSP / FF / NUL / ^Z / VT / CR / LS / NEL added at either end, CRLF line ends}, the same file given twice (same name, ./x/../ path, symbolic link); stdout compared byte for byte with the library's own results "
                            "(Generator::default().generate via harness/front) and with Fx.Cli; distinct = (outcome kinds of the arguments, exit code)",
                    "samples": [{"args": a, "model": m[:80]} for a, m in list(zip(arglists, model))[::max(1, len(arglists) // 6)]][:6]})
    if tie and nviol == 0:
        rep.violation({"kind": "tie-T5-broken", "tie": "T5 fastxdr binary vs Fx.Cli", "first_difference": first, "differences": tie}, found_input=False)


def replay(rep, r):
    exe = build_cli()
    d = os.path.join(WORK, "cli_replay")
    shutil.rmtree(d, ignore_errors=True)
    os.makedirs(d)
    for a, t in r.get("files", {}).items():
        open(os.path.join(d, a), "wb").write(t.encode("latin1"))
    p = subprocess.run([exe] + list(r.get("args", [])), capture_output=True, cwd=d, input=b"struct from_stdin { int a; };")
    print("exit", p.returncode, "stdout bytes", len(p.stdout))
    # the recorded observation was a violation: it persists if the binary still behaves the same way
    return 1 if (p.returncode == r.get("exit") and len(p.stdout) == r.get("stdout_len")) else 0
