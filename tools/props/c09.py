"""C09 — memory requested by a decode is bounded by the input, not by length fields."""
from lib import *
import t2, t2props, t4


def judge(c, iv, ia, spec, mv, ma):
    if iv.startswith("panic") or iv.startswith("abort"):
        return ("no abort", "decoder aborted (allocation failure?)")
    n = c.get("n", len(c["hex"]) // 2)
    smax = max(list(t2.spec_sizes(spec).values()) + [8])
    total = 0
    for a in ia:
        a = int(a)
        total += a
        # one request: at most `bytes present` elements of the largest type, or the String minimum
        if a > smax * max(n, 1) and a > 8:
            return ("each request <= size_of(largest type) x bytes present (= %d)" % (smax * n), "a single allocation request exceeds the input")
    # whole call: linear in the input for the nesting depths the campaign reaches
    if total > smax * (n + 8) * 8:
        if c["ty"] in spec.get("arrrec", []):
            # K11: the type is recursive through a counted array; every nesting level reserves min(count, remaining)
            return ("KNOWN", "K11", "nested hostile counts in a type that is recursive through an unbounded counted array make every level reserve "
                    "for the whole remaining input: total requested memory is quadratic in the input length")
        return ("total <= 8 x size_of(largest type) x (input + 8)", "total allocation is not bounded by the input")
    return None


RULE = ("counting global allocator around every decode of the campaign (count words 2^16..2^32-1 at every counted position, prefixes, random words, one hostile word repeated at every nesting level): "
        "each request <= size_of(largest declared type) x bytes present, total <= 8 x that; the request log is also compared event by event with the model's "
        "(Vec reservations min(count, remaining), one Box per optional link, one copy per string); a super-linear total on a type that is recursive through a counted array is finding K11")


def check(rep, tier, rng):
    proof_stage(rep, "C09")
    t2props.run_property(rep, "C09", tier, rng, judge, RULE)


def replay(rep, r):
    return t2props.generic_replay(rep, r)
