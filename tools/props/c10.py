"""C10 — runtime readers and size helpers honour their contracts at every boundary."""
from lib import *
import t4


def judge(rep, rows, prop_filter=None):
    """Shared by the properties that lean on T4.  rows: (req, impl, model, oracle)."""
    tie_breaks = []
    distinct = set()
    kinds = {}
    n_viol = 0
    for req, impl, model, orc in rows:
        iv, ia = t4.split_reply(impl)
        mv, ma = t4.split_reply(model)
        kinds[iv.split()[0] + ("" if iv.startswith("ok") else " " + " ".join(iv.split()[1:2]))] = \
            kinds.get(iv.split()[0] + ("" if iv.startswith("ok") else " " + " ".join(iv.split()[1:2])), 0) + 1
        distinct.add((req.split()[0], iv))
        if orc is not None and iv != orc:
            n_viol += 1
            if n_viol <= 5:
                rep.violation({"kind": "reader-contract", "request": "rt " + req, "expected": orc, "observed": iv,
                               "model": mv, "how": "echo 'REQ' | harness/rt/target/debug/fxrt"})
        if iv != mv:
            tie_breaks.append((req, iv, mv))
    rep.cov["outcome_kinds"] = kinds
    return tie_breaks, distinct, n_viol


def check(rep, tier, rng):
    proved = proof_stage(rep, "C10")
    rows = t4.run(tier, rng)
    tie_breaks, distinct, n_viol = judge(rep, rows)
    rep.cov["evaluations"] = len(rows)
    rep.cov["distinct_nontrivial"] = len(distinct)
    rep.cov["traces_validated_against_impl"] = len(rows) - len(tie_breaks)
    rep.cov["rule"] = ("T4 grid: every DeserialiserExt reader and blanket WireSize impl, payload n<=N, remaining r<=N+8, "
                       "max in {None,0..N+1}, count words 2^16/2^31-1/2^31/2^32-1, views at a leading offset; "
                       "N=%d. distinct = distinct (reader, canonical reply) pairs" % (9 if tier == "quick" else 24))
    rep.cov["samples"] = [{"request": r, "impl": i, "model": m, "closed_form": o} for r, i, m, o in rows[::max(1, len(rows) // 12)]][:12]
    rep.cov["exhaustive"] = True
    rep.assumptions += ["A-usize: 64-bit usize modelled as Nat", "bytes crate modelled (get_*, slice, advance, clone)"]
    if tie_breaks and n_viol == 0:
        req, iv, mv = tie_breaks[0]
        rep.violation({"kind": "tie-T4-broken", "tie": "T4 runtime readers vs Fx.Runtime", "first_difference":
                       {"request": "rt " + req, "impl": iv, "model": mv}, "differences": len(tie_breaks)}, found_input=False)


def replay(rep, r):
    req = r["request"][3:] if r.get("request", "").startswith("rt ") else r["first_difference"]["request"][3:]
    ok, log = cargo_build("rt")
    impl = run_lines([os.path.join(VERIF, "harness", "rt", "target", "debug", "fxrt")], [req])[0]
    print("request :", req)
    print("impl    :", impl)
    print("expected:", t4.oracle(req))
    return 0 if t4.split_reply(impl)[0] == t4.oracle(req) else 1
