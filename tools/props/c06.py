"""C06 — only declared discriminants are accepted; each selects its own arm."""
from lib import *
import re
import t2, t2props


def judge(c, iv, ia, spec, mv, ma):
    if c["kind"] == "targeted" and c["what"] in ("bool", "marker", "enum", "disc", "disc-bool", "utf8", "utf8-ascii-rest"):
        if iv != c["expect"]:
            return (c["expect"], "undeclared %s value not rejected with the documented error" % c["what"])
        return None
    if c["kind"] in ("valid", "valid+suffix"):
        want = t2.expected_valid(c)
        # the arm each declared discriminant selects: variant names of every union / enum value in the result
        a = re.findall(r"\((?:U|E):[^ )]+", iv)
        b = re.findall(r"\((?:U|E):[^ )]+", want)
        if a != b or not iv.startswith("ok"):
            return (want, "a declared discriminant selected a different arm")
        return None
    return "skip"


RULE = ("at every bool / optional marker / enum / union discriminant / string position the reference marks: undeclared 32-bit values "
        "(boundary words not among the declared values) and a non-UTF-8 byte, the documented Error variant and payload demanded; "
        "on valid encodings (every label of every fall-through group, constants, enum members, TRUE/FALSE, default) the selected variants are compared with the declared arms")


def check(rep, tier, rng):
    proof_stage(rep, "C06")
    t2props.run_property(rep, "C06", tier, rng, judge, RULE)


def replay(rep, r):
    return t2props.generic_replay(rep, r)
