"""C06 — only declared discriminants are accepted; each selects its own arm."""
from lib import *
import re
import t2, t2props, t3


def judge(c, iv, ia, spec, mv, ma):
    if c["kind"] == "targeted" and c["what"] in ("bool", "marker", "enum", "disc", "disc-bool", "utf8", "utf8-ascii-rest"):
        if iv != c["expect"]:
            return (c["expect"], "undeclared %s value not rejected with the documented error" % c["what"])
        return None
    if c["kind"] in ("valid", "valid+suffix"):
        want = t2.expected_valid(c)
        # the arm each declared discriminant selects: variant names of every union / enum value in the result
        a = re.findall(r"\((?:U|E):[^ )]+", iv)
        b = re.findall(r"\((?:U|E):[^ )]+", want)
        if a != b or not iv.startswith("ok"):
            return (want, "a declared discriminant selected a different arm")
        return None
    return "skip"


RULE = ("at every bool / optional marker / enum / union discriminant / string position the reference marks: undeclared 32-bit values "
        "(boundary words not among the declared values) and a non-UTF-8 byte, the documented Error variant and payload demanded; "
        "on valid encodings (every label of every fall-through group, constants, enum members, TRUE/FALSE, default) the selected variants are compared with the declared arms")


K14_SPEC = "const c = 1; enum e { A = 0, B = 1 }; union u switch (unsigned int s) { case A: int a; case B: int b; };"


def probe_k14(rep):
    """finding K14 (recorded, not repaired: the guard text is pinned by a golden test): the witness is compiled and run; the code, the
    model (which follows Rust's reading of `c` as a constant pattern) and the declared arms are compared on three discriminants"""
    import t4
    b = t2.Batch([K14_SPEC], with_clone=False, tag="k14")
    if b.status.get("0") != "ok":
        rep.violation({"kind": "K14 witness does not compile", "spec": K14_SPEC, "rustc": b.compile_errors.get("0")})
        return
    ins = [(0).to_bytes(4, "big") + (7).to_bytes(4, "big"), (1).to_bytes(4, "big") + (7).to_bytes(4, "big"), (2).to_bytes(4, "big")]
    want = ["ok (U:u::A 7) ws=8", "ok (U:u::B 7) ws=8", "err UnknownVariant 2"]
    reqs = ["dec 0 val u 0 " + x.hex() for x in ins]
    impl = [t4.split_reply(x)[0] for x in b.run(reqs)]
    model = [t4.split_reply(x)[0] for x in run_driver(["spec " + t3.hx(K14_SPEC)] + reqs)[1:]]
    rep.cov["k14_probe"] = {"impl": impl, "model": model, "declared": want}
    if impl != model:
        rep.violation({"kind": "tie-T2-broken", "tie": "K14 witness: compiled decoder vs Fx.Eval", "spec": K14_SPEC, "observed": impl, "model": model}, found_input=False)
    elif [i.split(" ws=")[0] for i in impl] != [w.split(" ws=")[0] for w in want]:
        kf = next(x for x in load_known() if x["id"] == "K14")
        rep.known_finding("K14", kf["what"])
    else:
        rep.notes.append("known finding K14 no longer reproduces")


def check(rep, tier, rng):
    proof_stage(rep, "C06")
    t2props.run_property(rep, "C06", tier, rng, judge, RULE)
    probe_k14(rep)


def replay(rep, r):
    return t2props.generic_replay(rep, r)
