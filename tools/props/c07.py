"""C07 — accepted specifications yield a module that compiles, with the documented API."""
from lib import *
import t2, t3, specgen

SPECIAL = [
    ("K4", "const C = 3; enum e { A = C }; struct s { e x; };"),
    ("K9", "union u switch (int v) { case 1: int a; };"),
    ("K9", "typedef int t; struct s { t a; t xs<>; };"),
    ("K9", "const n = 3; struct s { int a[n]; };"),
    ("K9", "typedef unsigned int uint; union u switch (int uint) { case 1: int a; };"),       # the switch variable is a `let` binding too
    ("K9", "const LIMIT = 4; union u switch (int LIMIT) { case 1: int a; };"),
    ("ok", "const c = 1; enum e { A = 0, B = 1 }; union u switch (unsigned int s) { case A: int a; case B: int b; };"),   # K14: compiles (and decodes wrongly: C06)
    ("K13", "const v_1 = 2; union u switch (int d) { case 1: int a; case v_1: int b; };"),
    ("ok", "typedef unsigned int alias; enum thing { ONE = 1, TWO = 2 }; union u switch (alias s) { case ONE: unsigned int a; case TWO: void; };"),
    ("oos", "typedef string t<4>;"),
    ("oos", "struct s { int xs<>; };"),
    ("oos", "union u switch (int d) { case 1: int type; case 2: int x; };"),
    ("oos", "enum e { A = 1 }; union u switch (e d) { case 1: int x; };"),
    ("oos", "struct s { s next; };"),
    ("oos", "struct a { b x; }; struct b { a y[2]; };"),
    ("ok", "struct a { b *x; }; struct b { a y<>; };"),
    ("oos", "union u switch (int d) { case 1: int a; case 1: int b; };"),
    ("oos", "enum e { A = 1, B = 1 };"),
    ("ok", "union u switch (bool b) { case TRUE: int x; };"),
    ("oos", "union u switch (float f) { case 1: int x; };"),
    ("oos", "struct type { int a; };"),
    ("oos", "const K = 0x1G;"),
    ("oos", "const K = 99999999999;"),
    ("ok", "union u switch (int d) { case FOO: int x; };"),
    ("ok", "struct s { opaque a; opaque b<>; opaque c[3]; };"),
    ("ok", "typedef opaque tt<>; struct s { tt x<2>; tt y[2]; tt *z; };"),
    ("ok", "union u switch (unsigned hyper d) { case 1: int x; default: void; };"),
    ("oos", "enum e { A = 1 }; typedef e te; union u switch (te d) { case A: int x; };"),
    ("oos", "struct s { int a; int a; };"),
    ("oos", "struct s { int type; int type_v; };"),
    ("ok", "union u switch (int d) { case 1: int a; case 2: default: unsigned hyper b; };"),
    ("ok", "typedef unsigned int tu; union u switch (int d) { case 1: void; default: tu b; };"),
    ("ok", "union u switch (bool b) { case TRUE: void; case FALSE: void; };"),
]


def check(rep, tier, rng):
    proof_stage(rep, "C07")
    known = load_known()
    # (1) the supported subset must compile, with both derive lines, and expose the documented shape
    #     (the Dump impls and the dispatcher of harness/backgen name every field, variant and trait impl)
    nviol, ncamp = 0, 0
    for res in t2.campaign_chunks(tier, rep.seed):
        ncamp += len(res["specs"])
        for k, s in enumerate(res["specs"]):
            if s["status"] != "ok" and not s.get("oos"):
                nviol += 1
                if nviol <= 5:
                    rep.violation({"kind": "supported specification: generated module " + s["status"], "spec": s["text"], "rustc": s["compile_errors"]})
        del res
    # (2) the judgement that stands in for rustc, validated in both directions on a mixed batch
    n = 40 if tier == "quick" else 400
    mixed = [("sup", c["text"]) for c in t3.corpus_supported(n, rng, variants=1, opts={"opaque_bare": True})]
    mixed += [("oos", c["text"]) for c in t3.corpus_out_of_subset(2 * n, rng)]
    mixed += SPECIAL
    b = t2.Batch([t for _, t in mixed], with_clone=True, tag="c07")
    model = run_driver(["outputok " + t3.hx(t) for _, t in mixed])
    agree, tie, kinds = 0, [], {}
    for k, ((tag, text), mo) in enumerate(zip(mixed, model)):
        st = b.status.get(str(k), "?")
        kinds[tag + ":" + st] = kinds.get(tag + ":" + st, 0) + 1
        if st.startswith("gen"):
            if mo != "nogen":
                tie.append((text, st, mo))
            continue
        if (st == "ok") == ("outputok=true" in mo):
            agree += 1
        else:
            tie.append((text, st + " " + str(b.compile_errors.get(str(k), ""))[:300], mo))
        if tag in ("sup", "ok") and st != "ok":
            nviol += 1
            rep.violation({"kind": "specification in the supported subset does not compile", "spec": text, "rustc": b.compile_errors.get(str(k))})
        kf = next((x for x in known if x["id"] == tag), None)
        if kf and st == "compile-fail":
            rep.known_finding(tag, kf["what"])
        elif kf and st == "ok":
            rep.notes.append("known finding %s no longer reproduces on: %s" % (tag, text))
    rep.cov.update({"evaluations": ncamp * 2 + len(mixed) * 2, "distinct_nontrivial": len(kinds) + ncamp,
                    "programs": ncamp + len(mixed), "judgement_agrees_with_rustc": agree, "judgement_disagrees": len(tie),
                    "traces_validated_against_impl": agree, "input_kinds": kinds,
                    "rule": "every supported-subset specification of the T2 campaign is compiled (rustc) with the default derive line and with +Clone, together with Dump impls "
                            "that name every documented field/variant/newtype and a dispatcher that requires TryFrom<Bytes>, TryFrom<&mut Bytes> and WireSize of every declared type; "
                            "a mixed batch (supported incl. bracket-less opaque, 13 kinds of out-of-subset constructs, hand-written corner cases) validates the Lean judgement "
                            "outputOk against rustc's verdict in both directions",
                    "samples": [{"spec": t[:200], "rustc": b.status.get(str(k)), "judgement": m} for k, ((_, t), m) in list(enumerate(zip(mixed, model)))[:: max(1, len(mixed) // 6)]][:6]})
    rep.assumptions += ["rustc is not modelled: outputOk is a judgement whose agreement with rustc is measured per run (coverage.judgement_agrees_with_rustc)"]
    if tie and nviol == 0:
        text, st, mo = tie[0]
        rep.violation({"kind": "tie-C07-broken", "tie": "rustc verdict vs Fx.outputOk", "first_difference": {"spec": text, "rustc": st, "judgement": mo},
                       "differences": len(tie)}, found_input=False)


def replay(rep, r):
    text = r.get("spec") or r["first_difference"]["spec"]
    b = t2.Batch([text], with_clone=True, tag="replay")
    print("status:", b.status.get("0"), b.compile_errors.get("0"))
    return 0 if b.status.get("0") == "ok" else 1
