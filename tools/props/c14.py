"""C14 — the generator is total: Ok or Err, never a panic."""
from lib import *
import t3, specgen


def known_panic(known, file, msg):
    for k in known:
        m = k.get("match", {})
        if "C14" in k.get("property", []) and m.get("file") == file and m.get("msg", "") in msg:
            return k
    return None


def check(rep, tier, rng):
    proof_stage(rep, "C14")
    t3.build()
    known = load_known()
    n = 300 if tier == "quick" else 10000
    sup = t3.corpus_supported(n, rng, variants=2)
    oos = t3.corpus_out_of_subset(n, rng)
    bases = [c["text"] for c in sup[:200]] + [c["text"] for c in oos[:200]] + t3.golden_inputs()
    mut = t3.corpus_mutations(4 * n, rng, bases)
    # typedef chains and cycles (the grammar accepts them) used as discriminant, field, element, optional and typedef target:
    # every walk along typedef targets in the generator has to stop
    cyc = []
    for names in (["t"], ["a", "b"], ["a", "b", "c"], ["ping_t", "pong_t"]):
        ring = "".join("typedef %s %s;" % (names[(i + 1) % len(names)], names[i]) for i in range(len(names)))
        x = names[0]
        cyc += [ring,
                ring + "union u switch (%s k) { case 1: int v1; default: void; };" % x,
                ring + "struct s { %s f1; %s f2<>; %s f3[2]; %s *f4; };" % (x, x, x, x),
                ring + "typedef %s wrapped<3>; typedef %s fixed[2];" % (x, x),
                ring + "union u switch (int k) { case 1: %s v1; default: %s v2; };" % (x, x)]
    chain = "typedef int i1;" + "".join("typedef i%d i%d;" % (i, i + 1) for i in range(1, 9))
    cyc += [chain + "union u switch (i9 k) { case 1: int v1; };", chain + "struct s { i9 f1; i9 f2<>; };",
            "typedef opaque o1<>; typedef o1 o2; typedef o2 o3; struct s { o3 f; o3 g<>; };"]
    aff = []
    for base in [sup[0]["text"], "const A = 1;", "struct s { int a; };", ""]:
        for j in ["\x0c", "\x0b", "\u0085", "\u00a0", "\u2028", "\u2029", "\u3000", "\u1680", "\ufeff", "\u200b", "\x00", "\x1a", "\r", "\r\n", " \t\n"]:
            aff += [j + base, base + j, j + base + j]
    nm = [{"text": specgen.render(items), "kind": "names", "tag": ctag} for ctag, items in specgen.names_catalog()]
    # arms without a body where the grammar does and does not allow it: `case L:` may fall through (also into `}`), `default:` may not
    for body in ("case 1: int a; default: }", "default: case 1: int a; }", "default: }", "case 1: }", "case 1: case 2: }", "case 1: int a; default: default: void; }",
                 "default: void; default: }", "case 1: default: int a; }", "case 1: void; case 2: default: }"):
        for sw in ("int d", "unsigned int d", "bool b"):
            nm.append({"text": "union u switch (%s) { %s;" % (sw, body), "kind": "bodyless-arms", "tag": "bodyless-arms"})
    cases = (nm + sup + oos + mut + [{"text": t, "kind": "golden"} for t in t3.golden_inputs()] + [{"text": t, "kind": "typedef-cycle"} for t in cyc]
             + [{"text": t, "kind": "unicode-space-affix"} for t in aff])
    texts = [c["text"] for c in cases]
    res = t3.run_texts(texts)
    greqs = ["gen d " + t3.hx(t) for t in texts]
    gen = run_lines([t3.FRONT], greqs)
    gen_model = run_driver(greqs)
    tie_breaks, nviol, distinct, kinds, outcomes = [], 0, set(), {}, {}
    import t1
    for c, (impl, model), g, gm in zip(cases, res, gen, gen_model):
        if not t1.same_gen(g, gm)[0]:
            tie_breaks.append((c, g[:200], gm[:200]))
        kinds[c["kind"]] = kinds.get(c["kind"], 0) + 1
        cls = impl.split(" ")[0]
        outcomes["ast:" + cls] = outcomes.get("ast:" + cls, 0) + 1
        outcomes["gen:" + g.split(" ")[0]] = outcomes.get("gen:" + g.split(" ")[0], 0) + 1
        distinct.add((cls, g.split(" ")[0], c.get("tag", c["kind"]), impl[:60] if cls == "panic" else ""))
        if not t3.same_outcome(impl, model):
            tie_breaks.append((c, impl, model))
        for what, line, mline in (("Ast::new", impl, model), ("Generator::generate", g, gm)):
            if line.startswith("panic") or line.startswith("abort"):
                p = t3.panic_canon(line) or ("?", line)
                k = known_panic(known, p[0], p[1])
                # a recorded finding is a panic at a recorded site *reached the recorded way*: the model (for which
                # C14_only_known_panic_sites / C14_generate_only_known_panic characterise every panic) predicts the same panic from the
                # same entry point.  The same site reached from elsewhere is a different violation.
                if k and t3.same_outcome(line, mline):
                    rep.known_finding(k["id"], k["what"])
                else:
                    nviol += 1
                    if nviol <= 5:
                        rep.violation({"kind": "generator-panicked", "api": what, "text": c["text"], "observed": line, "model": mline[:200],
                                       "how": "echo \"ast <hex of text>\" | harness/front/target/debug/fxfront"})
        # the model parses with the grammar regenerated from src/xdr.pest (T0): a text that grammar rejects must be Err
        if model == "err" and impl.startswith("ok"):
            nviol += 1
            if nviol <= 5:
                rep.violation({"kind": "grammar-rejects-text-but-ok", "text": c["text"], "ast": impl[:200], "model": model,
                               "how": "echo \"ast <hex of text>\" | harness/front/target/debug/fxfront"})
        # a text the grammar rejects must be Err from both entry points
        if impl == "err" and not g.startswith("err"):
            nviol += 1
            rep.violation({"kind": "rejected-text-not-err", "text": c["text"], "ast": impl, "generate": g})
    rep.cov.update({"evaluations": 2 * len(cases), "distinct_nontrivial": len(distinct), "input_kinds": kinds, "outcomes": outcomes,
                    "traces_validated_against_impl": len(cases) - len(tie_breaks),
                    "rule": "supported-subset specifications (2 layouts each), grammar-valid out-of-subset constructs (18 kinds), 1-2 token-level mutations "
                            "of both and of the repository's golden inputs, typedef chains and cycles in every position (a request without an answer within 20 s is a violation); each text through Ast::new (compared with the model's outcome and panic site) and "
                            "Generator::generate; distinct = distinct (outcome class, generate class, construct kind, panic site)",
                    "samples": [{"text": c["text"][:300], "ast": i[:120], "generate": g[:60]} for c, (i, m), g in list(zip(cases, res, gen))[:: max(1, len(cases) // 6)]][:6]})
    if tie_breaks and nviol == 0:
        c, impl, model = tie_breaks[0]
        rep.violation({"kind": "tie-T3-broken", "tie": "T3/T1 Ast::new and Generator::generate outcome vs the model", "first_difference": {"text": c["text"], "impl": impl, "model": model},
                       "differences": len(tie_breaks)}, found_input=False)


def replay(rep, r):
    t3.build()
    text = r.get("text") or r["first_difference"]["text"]
    impl, model = t3.run_texts([text])[0]
    g = run_lines([t3.FRONT], ["gen d " + t3.hx(text)])[0]
    print("ast  :", impl[:300])
    print("model:", model[:300])
    print("gen  :", g[:100])
    return 1 if (impl.startswith("panic") or g.startswith("panic") or (model == "err" and not impl.startswith("err"))) else 0
