"""C04 — decoders never panic, abort or overflow, whatever the bytes."""
from lib import *
import t2, t2props, t3, t4, specgen


def judge(c, iv, ia, spec, mv, ma):
    if iv.startswith("panic") or iv.startswith("abort"):
        return ("ok … | err …", "decoder panicked or aborted")
    return None


RULE = ("every input of the campaign: every strict prefix (byte granularity) of valid encodings, every 32-bit word replaced by boundary values, "
        "targeted invalid lengths/counts/markers/discriminants, random word strings; both families; plus optional chains of depth 10^2..10^4 "
        "(and 10^5 in the thorough tier, main-thread-sized stack) in a child process")


def chains(rep, tier):
    """deeply nested optional chains: must decode (or err) without overflowing the stack at moderate depth"""
    spec = "struct node { unsigned int v; node *next; };"
    b = t2.Batch([spec], with_clone=False, tag="chain")
    known = load_known()
    depths = [100, 1000, 10000] + ([100000] if tier == "thorough" else [])
    for d in depths:
        hx = ("00000007" + "00000001") * d + "00000007" + "00000000"
        for stack_mb, label in ((64, "64MB"), (8, "8MB-main-thread-default")):
            if d >= 100000 and stack_mb == 64:
                continue
            out = b.run(["dec 0 ref node 0 " + hx], stack_mb=stack_mb)[0]
            v = t4.split_reply(out)[0]
            rep.cov.setdefault("chains", []).append({"depth": d, "stack": label, "outcome": v[:40]})
            if v.startswith("abort") or v.startswith("panic"):
                k = next((k for k in known if k["id"] == "K5"), None)
                if k and d >= k["match"]["min_depth"] and stack_mb <= 8:
                    rep.known_finding("K5", k["what"])
                else:
                    rep.violation({"kind": "stack-overflow", "spec": spec, "type": "node", "family": "ref", "lead": 0, "depth": d,
                                   "stack": label, "input_hex": "(00000007 00000001) x %d + 00000007 00000000" % d, "observed": v})


def check(rep, tier, rng):
    proof_stage(rep, "C04")
    t2props.run_property(rep, "C04", tier, rng, judge, RULE)
    chains(rep, tier)


def replay(rep, r):
    if r.get("kind") == "stack-overflow":
        b = t2.Batch([r["spec"]], with_clone=False, tag="chain")
        d = r["depth"]
        out = b.run(["dec 0 ref node 0 " + ("00000007" + "00000001") * d + "0000000700000000"], stack_mb=8 if "8MB" in r["stack"] else 64)[0]
        print(out[:100])
        return 1 if out.startswith(("abort", "panic")) else 0
    got = t2props.replay_case(r)
    print("observed:", got[:300])
    return 1 if got.startswith(("panic", "abort")) else 0
