"""C12 — the AST and its indexes reflect exactly what the specification declares."""
from lib import *
import t3


def check(rep, tier, rng):
    proof_stage(rep, "C12")
    t3.build()
    n = 500 if tier == "quick" else 20000
    cases = t3.corpus_supported(n, rng, variants=3)
    cases += [{"text": t, "items": None, "kind": "golden"} for t in t3.golden_inputs()]
    import specgen
    for ctag, items in specgen.catalog():
        cases.append({"text": specgen.render(items), "items": items, "kind": "catalogue", "mode": "plain"})
        cases.append({"text": specgen.render(rng.shuffle(items), specgen.Layout(rng, "light")), "items": items, "kind": "catalogue", "mode": "light"})
    for ctag, items in specgen.names_catalog():
        cases.append({"text": specgen.render(items), "items": items, "kind": "names", "mode": "plain"})
        cases.append({"text": specgen.render(rng.shuffle(items), specgen.Layout(rng, "light")), "items": items, "kind": "names", "mode": "light"})
    # the end of the text: a comment after the last declaration, with and without a final line end
    for c in list(cases[:60]):
        if c.get("items") is not None:
            for tail in ("// end", "// end\r", "/* end */", " /**/ //", "\n\n//\n"):
                cases.append({"text": c["text"] + tail, "items": c["items"], "kind": "tail-comment", "mode": ""})
    res = t3.run_texts([c["text"] for c in cases])
    tie_breaks, nviol, distinct = [], 0, set()
    kinds = {}
    for c, (impl, model) in zip(cases, res):
        kinds[c["kind"] + ":" + c.get("mode", "")] = kinds.get(c["kind"] + ":" + c.get("mode", ""), 0) + 1
        distinct.add(impl)
        if not t3.same_outcome(impl, model):
            tie_breaks.append((c, impl, model))
        if c["items"] is not None:
            want = t3.ast_of(c["items"])
            if want is not None and impl != want:
                nviol += 1
                if nviol <= 5:
                    rep.violation({"kind": "ast-differs-from-declarations", "text": c["text"], "expected": want, "observed": impl,
                                   "how": "echo \"ast $(printf %s TEXT | xxd -p | tr -d '\\n')\" | harness/front/target/debug/fxfront"})
    rep.cov.update({"evaluations": len(cases), "distinct_nontrivial": len(distinct),
                    "traces_validated_against_impl": len(cases) - len(tie_breaks), "input_kinds": kinds,
                    "rule": "declaration models from specgen (supported subset) printed plain and under 2 random layouts/orders each, plus the construct catalogue (long arrays, extreme bounds, names that look like primitive spellings, …) and every r#\"..\"# "
                            "specification harvested from /repo/src; three-way: Ast::new dump = Fx model dump = ast_of(D). distinct = distinct Ast dumps",
                    "samples": [{"text": c["text"][:400], "impl": i[:400]} for c, (i, m) in list(zip(cases, res))[:: max(1, len(cases) // 5)]][:5]})
    if tie_breaks and nviol == 0:
        c, impl, model = tie_breaks[0]
        rep.violation({"kind": "tie-T3-broken", "tie": "T3 Ast::new vs Fx.Ast.new", "first_difference": {"text": c["text"], "impl": impl, "model": model},
                       "differences": len(tie_breaks)}, found_input=False)


def replay(rep, r):
    t3.build()
    text = r.get("text") or r["first_difference"]["text"]
    impl, model = t3.run_texts([text])[0]
    print("impl :", impl)
    print("model:", model)
    print("want :", r.get("expected"))
    return 0 if (r.get("expected") in (None, impl) and t3.same_outcome(impl, model)) else 1
