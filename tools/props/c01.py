"""C01 — decoding the XDR encoding of any value returns that value."""
from lib import *
import t2, t2props


def judge(c, iv, ia, spec, mv, ma):
    if c["kind"] not in ("valid", "valid+suffix"):
        return "skip"
    want = t2.expected_valid(c)
    if t2props.strip_meta(iv) != t2props.strip_meta(want):
        return (want, "decoded value differs from the encoded value")
    return None


RULE = ("supported-subset specifications (specgen) compiled with the real generator; for every declared type random well-typed values from the "
        "reference (Fx.Xdr: every length residue, empty/maximal arrays, every arm, optional chains), RFC 4506 encoding, both decoder families, "
        "with and without a trailing suffix and at a leading offset; expected = documented Rust value (repr). distinct = (spec, type, kind, outcome)")


def check(rep, tier, rng):
    proof_stage(rep, "C01")
    t2props.run_property(rep, "C01", tier, rng, judge, RULE)


def replay(rep, r):
    return t2props.generic_replay(rep, r)
