"""C13 — a type is generic exactly when opaque data is reachable from it (generics() part; parameter lists via T1)."""
from lib import *
import t3, specgen, itertools


def generics_of(dump):
    import re
    m = re.search(r"G\{([^}]*)\}", dump)
    return m.group(1) if m else None


def check(rep, tier, rng):
    proof_stage(rep, "C13")
    t3.build()
    cases = []
    kmax = 2 if tier == "quick" else 3
    for k in range(1, kmax + 1):
        for nodes in t3.all_graphs(k, with_undeclared=(k <= 2)):
            items = t3.graph_spec(list(nodes), rng)
            for order in itertools.permutations(items):
                cases.append({"items": items, "text": specgen.render(list(order)), "kind": "exhaustive-k%d" % k})
    # sampled k = kmax+1 graphs, random order
    allk = None
    nsample = 3000 if tier == "quick" else 60000
    per = list(t3.all_graphs(1, with_undeclared=False))
    import random
    for _ in range(nsample):
        k = kmax + 1
        targets = list(range(k))
        nodes = []
        for i in range(k):
            kind = rng.choice(["struct", "union", "typedef"])
            own = rng.chance(1, 5)
            refs = [t for t in targets if rng.chance(1, 3)]
            if kind == "typedef":
                refs = refs[:1]
                if own:
                    refs = []
            nodes.append((kind, own, refs))
        items = t3.graph_spec(nodes, rng)
        cases.append({"items": items, "text": specgen.render(rng.shuffle(items)), "kind": "sampled-k%d" % k})
    # random large graphs with long chains in adversarial (reverse) order
    nbig = 60 if tier == "quick" else 1500
    for _ in range(nbig):
        n = 13 + rng.below(28)
        nodes = []
        chain = 12 + rng.below(n - 12)
        for i in range(n):
            kind = rng.choice(["struct", "union", "typedef"])
            refs = [i + 1] if i + 1 < chain else []
            own = (i == chain - 1) and rng.chance(3, 4)
            if kind != "typedef":
                refs = refs + [rng.below(n) for _ in range(rng.below(3))]
            elif own:
                refs = []
            nodes.append((kind, own, refs))
        items = t3.graph_spec(nodes, rng)
        order = items if rng.chance(1, 2) else rng.shuffle(items)
        cases.append({"items": items, "text": specgen.render(order), "kind": "chain>=12"})
    for ctag, items in specgen.names_catalog():
        cases.append({"items": items, "text": specgen.render(items), "kind": "names"})
        cases.append({"items": items, "text": specgen.render(rng.shuffle(items)), "kind": "names"})
    res = t3.run_texts([c["text"] for c in cases])
    tie_breaks, nviol, distinct, kinds = [], 0, set(), {}
    for c, (impl, model) in zip(cases, res):
        kinds[c["kind"]] = kinds.get(c["kind"], 0) + 1
        if not t3.same_outcome(impl, model):
            tie_breaks.append((c, impl, model))
        want = t3.ast_of(c["items"])
        distinct.add((generics_of(impl), len(c["items"])))
        if want is not None and generics_of(impl) != generics_of(want):
            nviol += 1
            if nviol <= 5:
                rep.violation({"kind": "generics-differ-from-reachability", "text": c["text"], "expected_generics": generics_of(want),
                               "observed_generics": generics_of(impl)})
    rep.cov.update({"evaluations": len(cases), "distinct_nontrivial": len(distinct), "input_kinds": kinds,
                    "traces_validated_against_impl": len(cases) - len(tie_breaks),
                    "exhaustive": True,
                    "rule": "every dependency graph over k<=%d declarations (kind x own opaque x reference set, typedefs one target, undeclared refs for k<=2) in every order, "
                            "sampled graphs over %d declarations, random graphs of 13-40 declarations with an opaque at the end of a chain >= 12 in source (adversarial) or shuffled order; "
                            "reference = graph search in tools/t3.py; distinct = distinct (generic set, size)" % (kmax, kmax + 1),
                    "samples": [{"text": c["text"][:300], "generics": generics_of(i)} for c, (i, m) in list(zip(cases, res))[:: max(1, len(cases) // 5)]][:5]})
    # the parameter lists the emitters print: the impl headers and type declarations of the generated text must carry `<T>` / `<Bytes>`
    # for exactly the names reachability gives (the index may be right and the *question* the emitters ask of it wrong)
    import t1, re
    sample = [c for c in cases if c["kind"] == "names"] + cases[:: max(1, len(cases) // 400)]
    gens = t1.run_gen([c["text"] for c in sample])
    nparam = 0
    for c, (gi, gm) in zip(sample, gens):
        want = t3.ast_of(c["items"])
        if want is None or not gi.startswith("ok "):
            continue
        nparam += 1
        reach = set(x for x in (generics_of(want) or "").split(",") if x)
        text = bytes.fromhex(gi[3:]).decode("utf-8", "replace")
        declared = set(re.findall(r"pub (?:struct|enum) ([A-Za-z_0-9]+)<T", text))
        impls = set(re.findall(r"for ([A-Za-z_0-9]+)<Bytes>", text))
        names = set(it["name"] for it in c["items"] if it["k"] in ("struct", "union", "typedef"))
        # names of these corpora need no escaping, except the reserved-word catalogue (skipped: `_v`)
        if any(it["name"] in ("ref", "match", "type", "use", "mod", "fn", "impl", "self", "Self", "loop", "move", "in", "as", "where", "dyn", "async") for it in c["items"] if "name" in it):
            continue
        # (a typedef whose target is its own alias prints no declaration, so the impl headers are what is compared)
        if (impls & names) != (reach & names):
            nviol += 1
            if nviol <= 5:
                rep.violation({"kind": "emitted-parameter-lists-differ-from-reachability", "text": c["text"], "expected_generics": ",".join(sorted(reach & names)),
                               "impl_headers_with_Bytes": ",".join(sorted(impls & names)), "declarations_with_T": ",".join(sorted(declared & names))})
    rep.cov["parameter_lists_checked"] = nparam
    if tie_breaks and nviol == 0:
        c, impl, model = tie_breaks[0]
        rep.violation({"kind": "tie-T3-broken", "tie": "T3 generics() vs Fx.GenericIndex.new", "first_difference": {"text": c["text"], "impl": impl, "model": model},
                       "differences": len(tie_breaks)}, found_input=False)


def replay(rep, r):
    t3.build()
    if r.get("kind") == "emitted-parameter-lists-differ-from-reachability":
        import re
        g = run_lines([t3.FRONT], ["gen d " + t3.hx(r["text"])])[0]
        if not g.startswith("ok "):
            print("generate:", g[:80]); return 0
        text = bytes.fromhex(g[3:]).decode("utf-8", "replace")
        impls = set(re.findall(r"for ([A-Za-z_0-9]+)<Bytes>", text))
        want = set(x for x in r.get("expected_generics", "").split(",") if x)
        print("impl headers with <Bytes>:", sorted(impls)); print("reachability            :", sorted(want))
        return 0 if impls == want else 1
    text = r.get("text") or r["first_difference"]["text"]
    impl, model = t3.run_texts([text])[0]
    print("impl :", impl)
    print("model:", model)
    print("want generics:", r.get("expected_generics"))
    return 0 if (r.get("expected_generics") in (None, generics_of(impl)) and t3.same_outcome(impl, model)) else 1
