"""C03 — both decoder families agree and consume exactly one value."""
from lib import *
import t2, t2props, t4

_prev = {}


def judge(c, iv, ia, spec, mv, ma):
    # cases come in (val, ref) pairs on the same input
    key = (c["k"], c["ty"], c["lead"], c["hex"], c["kind"], c.get("what"))
    if c["fam"] == "val":
        _prev["k"], _prev["v"] = key, iv
        if c["kind"] in ("valid", "valid+suffix"):
            want = t2.expected_valid(c)
            if iv != want:
                return (want, "result depends on suffix/offset or differs from the value")
        return None
    if _prev.get("k") == key and t2props.strip_meta(_prev["v"]) != t2props.strip_meta(iv):
        return (_prev["v"], "TryFrom<Bytes> and TryFrom<&mut Bytes> disagree")
    if c["kind"] in ("valid", "valid+suffix"):
        want = t2.expected_valid(c)
        if iv != want:
            return (want, "buffer not advanced by exactly the encoded length / result depends on suffix or offset")
    return None


RULE = ("every input of the campaign (valid encodings, with a random suffix, at a leading offset inside a larger allocation, every strict prefix, "
        "boundary words, targeted invalid words, random words) is decoded by both families; compared: equal results; on valid encodings the caller's "
        "buffer is advanced by |enc| with the suffix untouched and the value (incl. absolute offsets of opaque leaves) does not depend on suffix or offset")


def check(rep, tier, rng):
    proof_stage(rep, "C03")
    t2props.run_property(rep, "C03", tier, rng, judge, RULE)


def replay(rep, r):
    return t2props.generic_replay(rep, r)
