"""C11 — code generation is a pure function of the declarations."""
import subprocess
from lib import *
import t1, t3, specgen


def check(rep, tier, rng):
    proof_stage(rep, "C11")
    t3.build()
    known = load_known()
    n = 150 if tier == "quick" else 3000
    variants = 6 if tier == "quick" else 12
    cases = t3.corpus_supported(n, rng, variants=variants)
    # the construct catalogue as well: each specification plain, then under 2 random layouts / declaration orders
    gi = n
    for ctag, items in specgen.catalog():
        cases.append({"text": specgen.render(items), "items": items, "group": gi, "mode": "plain", "meta": {}, "kind": "catalogue", "perm": False})
        for mode in ("light", "wild"):
            cases.append({"text": specgen.render(rng.shuffle(items), specgen.Layout(rng, mode)), "items": items, "group": gi, "mode": mode,
                          "meta": {}, "kind": "catalogue", "perm": True})
        gi += 1
    texts = [c["text"] for c in cases]
    # (1) same text, fresh processes (fresh hash seeds), each process generating the texts in a different order (identity, reverse,
    #     random): the output for a text is byte-identical whatever was generated before it in the same process — it is a function of
    #     the text alone, not of the call history (a cache, a counter or a memo table surviving between calls would show here)
    nproc = 8
    reqs = ["gen d " + t3.hx(t) for t in texts[:: variants]]
    orders = [list(range(len(reqs))), list(range(len(reqs)))[::-1]] + [rng.shuffle(list(range(len(reqs)))) for _ in range(nproc - 2)]
    outs = []
    for order in orders:
        p = subprocess.run([t3.FRONT], input="\n".join(reqs[j] for j in order) + "\n", capture_output=True, text=True, env=ENV)
        lines = p.stdout.split("\n")[:len(reqs)]
        back = [""] * len(reqs)
        for pos, j in enumerate(order):
            back[j] = lines[pos] if pos < len(lines) else "missing"
        outs.append(back)
    nviol = 0
    for j, q in enumerate(reqs):
        if len({o[j] for o in outs}) != 1:
            nviol += 1
            if nviol <= 3:
                alone = subprocess.run([t3.FRONT], input=q + "\n", capture_output=True, text=True, env=ENV).stdout.split("\n")[0]
                bad = next((k for k, o in enumerate(outs) if o[j] != alone), 0)
                hist = [texts[i * variants] for i in orders[bad][:orders[bad].index(j)]]
                rep.violation({"kind": "output depends on the calls made before it in the same process", "text": texts[j * variants],
                               "history": hist, "alone": alone[:300], "after_history": outs[bad][j][:300],
                               "how": "fxfront: `gen d <hex>` for each text of `history`, then for `text`, in one process; compare with `text` alone"})
    # (2) repeated and interleaved calls on one Generator value
    rr = run_lines([t3.FRONT], ["genrep 5 %s %s" % (t3.hx(texts[j]), t3.hx(texts[(j + 1) % len(texts)])) for j in range(0, len(texts), variants)])
    for j, r in enumerate(rr):
        if r != "same":
            nviol += 1
            if nviol <= 3:
                rep.violation({"kind": "repeated calls on one Generator differ", "text": texts[j * variants], "observed": r})
    # (3) layout and declaration order: same declarations => same items (token-identical output, same Ast)
    res = t1.run_gen(texts)
    asts = run_lines([t3.FRONT], ["ast " + t3.hx(t) for t in texts])
    tie = []
    groups = {}
    for c, (impl, model), ast in zip(cases, res, asts):
        ok, det = t1.same_gen(impl, model)
        if not ok:
            tie.append((c, det))
        groups.setdefault(c["group"], []).append((c, impl, ast))
    distinct = set()
    for gi, members in groups.items():
        base_c, base_impl, base_ast = members[0]
        distinct.add(base_ast)
        btok = t1.tokens(base_impl[3:]) if base_impl.startswith("ok ") else base_impl.split(" ")[0]
        for c, impl, ast in members[1:]:
            tok = t1.tokens(impl[3:]) if impl.startswith("ok ") else impl.split(" ")[0]
            if tok != btok or ast != base_ast:
                nviol += 1
                if nviol <= 5:
                    rep.violation({"kind": "layout or declaration order changed the generated items", "base_text": base_c["text"], "text": c["text"],
                                   "mode": c["mode"], "ast_equal": ast == base_ast})
    # (3b) deep dependency chains (6-14 declarations, an opaque at the end), written top-down (every reference is a forward reference),
    #      bottom-up and shuffled: same items in every order, and the model's fixpoint agrees (T1)
    nchains = 12 if tier == "quick" else 120
    ctexts, cgroups = [], []
    for ci in range(nchains):
        depth = 6 + rng.below(9)
        nodes = []
        for i in range(depth):
            kind = rng.choice(["struct", "struct", "typedef", "union"])
            nodes.append((kind, i == depth - 1, [i + 1] if i + 1 < depth else []))
        items = t3.graph_spec(nodes, rng)
        for order in (items, list(reversed(items)), rng.shuffle(items)):
            ctexts.append(specgen.render(order))
            cgroups.append(ci)
    cres = t1.run_gen(ctexts)
    cbase = {}
    for t, gi, (impl, model) in zip(ctexts, cgroups, cres):
        ok, det = t1.same_gen(impl, model)
        if not ok:
            tie.append(({"text": t}, det))
        tok = t1.tokens(impl[3:]) if impl.startswith("ok ") else impl.split(" ")[0]
        if gi not in cbase:
            cbase[gi] = (t, tok)
        elif tok != cbase[gi][1]:
            nviol += 1
            if nviol <= 5:
                rep.violation({"kind": "declaration order changed the generated items (deep chain)", "base_text": cbase[gi][0], "text": t, "mode": "chain"})
    # (4) the RFC tokens `unsigned` and `int`: whitespace between them (any amount) and whitespace-delimited comments
    k7 = []
    for ws in [" ", "  ", "\t", "\n", " \n\t ", "\r\n"]:
        k7.append(("ws", "struct s { unsigned%sint a; unsigned%shyper b; };" % (ws, ws)))
    for cm in [" /* c */ ", "\n// c\n"]:
        k7.append(("comment", "struct s { unsigned%sint a; unsigned%shyper b; };" % (cm, cm)))
    base = run_lines([t3.FRONT], ["gen d " + t3.hx("struct s { unsigned int a; unsigned hyper b; };")])[0]
    for (kind, t), out in zip(k7, run_lines([t3.FRONT], ["gen d " + t3.hx(t) for _, t in k7])):
        if out != base:
            k = next((k for k in known if k["id"] == "K7b"), None)
            if kind == "comment" and k and out.startswith("err"):
                rep.known_finding("K7b", k["what"])
            else:
                nviol += 1
                rep.violation({"kind": "layout between `unsigned` and `int` changed the output", "text": t, "observed": out[:80]})
    rep.cov.update({"evaluations": len(texts) + nproc * len(reqs) + len(rr) + len(k7) + len(ctexts), "distinct_nontrivial": len(distinct),
                    "traces_validated_against_impl": len(texts) + len(ctexts) - len(tie), "processes": nproc,
                    "rule": "%d declaration models x %d printings (random whitespace / comment layouts, shuffled declaration order) -> token-identical output and identical Ast; "
                            "%d fresh processes generating the same texts in different orders (identity, reverse, random) -> byte-identical per text (history independence); 5 repeated/interleaved calls on one Generator; model (T1) on every text; deep reference chains (6-14 declarations ending in an opaque) top-down / bottom-up / shuffled -> same set of items. distinct = distinct Asts" % (n, variants, nproc),
                    "samples": [{"text": c["text"][:300], "mode": c["mode"]} for c in cases[:: max(1, len(cases) // 5)]][:5]})
    if tie and nviol == 0:
        c, det = tie[0]
        rep.violation({"kind": "tie-T1-broken", "tie": "T1 Generator::generate vs render(generateModule)", "first_difference": {"text": c["text"], "detail": det},
                       "differences": len(tie)}, found_input=False)


def replay(rep, r):
    t3.build()
    if "history" in r:
        seq = subprocess.run([t3.FRONT], input="\n".join("gen d " + t3.hx(t) for t in r["history"] + [r["text"]]) + "\n", capture_output=True, text=True, env=ENV).stdout.split("\n")
        alone = subprocess.run([t3.FRONT], input="gen d " + t3.hx(r["text"]) + "\n", capture_output=True, text=True, env=ENV).stdout.split("\n")[0]
        same = seq[len(r["history"])] == alone
        print("output after the history equals the output alone:", same)
        return 0 if same else 1
    a = run_lines([t3.FRONT], ["gen d " + t3.hx(r.get("base_text", r.get("text", ""))), "gen d " + t3.hx(r.get("text", ""))])
    same = (t1.tokens(a[0][3:]) if a[0].startswith("ok ") else a[0]) == (t1.tokens(a[1][3:]) if a[1].startswith("ok ") else a[1])
    print("outputs token-identical:", same)
    return 0 if same else 1
