"""C02 — wire_size() equals the encoded length of the value (and the bytes the decoder consumes)."""
from lib import *
import t2, t2props


def judge(c, iv, ia, spec, mv, ma):
    if c["kind"] not in ("valid", "valid+suffix"):
        return "skip"
    want = t2.expected_valid(c)
    if not iv.startswith("ok"):
        return (want, "valid encoding rejected")
    if t2props.field(iv, "ws") != t2props.field(want, "ws"):
        return (want, "wire_size() differs from the encoded length")
    if c["fam"] == "ref" and t2props.field(iv, "rem") != t2props.field(want, "rem"):
        return (want, "bytes consumed differ from the encoded length")
    return None


RULE = ("as C01; compared: wire_size() of the decoded value against |enc(x)| and, for TryFrom<&mut Bytes>, the bytes left in the caller's buffer")


def check(rep, tier, rng):
    proof_stage(rep, "C02")
    t2props.run_property(rep, "C02", tier, rng, judge, RULE)


def replay(rep, r):
    return t2props.generic_replay(rep, r)
