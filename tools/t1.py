"""T1: `render (generateModule ast)` vs `Generator::generate(text)` as token streams (after the header)."""
import re
from lib import *
import t3

TOK = re.compile(r"[A-Za-z0-9_]+|\S")


def tokens(hexs):
    if hexs == "-":
        return []
    return TOK.findall(bytes.fromhex(hexs).decode("utf-8"))


def run_gen(texts, derive="d"):
    """[(impl_reply, model_reply)]"""
    reqs = ["gen %s %s" % (derive, t3.hx(t)) for t in texts]
    impl = run_lines([t3.FRONT], reqs)
    model = run_driver(reqs)
    return list(zip(impl, model))


def same_gen(impl, model):
    """(equal?, detail)"""
    if impl.startswith("ok ") and model.startswith("ok "):
        a, b = tokens(impl[3:]), tokens(model[3:])
        if a == b:
            return True, ""
        for i, (x, y) in enumerate(zip(a, b)):
            if x != y:
                return False, "token %d: impl `%s` model `%s`" % (i, " ".join(a[max(0, i - 6):i + 6]), " ".join(b[max(0, i - 6):i + 6]))
        return False, "length %d vs %d" % (len(a), len(b))
    if impl.startswith("err") and model.startswith("err"):
        return True, ""
    if t3.same_outcome(impl, model):
        return True, ""
    return False, "impl %s / model %s" % (impl[:80], model[:80])
